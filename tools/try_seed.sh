#!/bin/bash
# try_seed.sh <seed-name> <property> [tier]   : apply a seeded patch to /repo, run the check, undo.
NAME=$1; PID=$2; TIER=${3:-quick}
cd /repo || exit 2
git diff --quiet || { echo "/repo has uncommitted changes"; exit 2; }
if ! git apply --check /verif/seeded/$NAME/patch.diff 2>/dev/null; then
  if git apply --3way --check /verif/seeded/$NAME/patch.diff 2>/dev/null; then MODE=--3way; else echo "SEED $NAME: patch does not apply to current /repo"; exit 3; fi
fi
git apply $MODE /verif/seeded/$NAME/patch.diff
# the evidence file describes the unchanged tree: keep it aside while the check runs against the seeded change
[ -f /verif/evidence/$PID.json ] && cp /verif/evidence/$PID.json /tmp/evidence_keep_$PID.json
cd /verif && ./check $PID --tier $TIER > /tmp/try_${NAME}_${PID}.out 2> /tmp/try_${NAME}_${PID}.err; RC=$?
[ -f /tmp/evidence_keep_$PID.json ] && mv /tmp/evidence_keep_$PID.json /verif/evidence/$PID.json
cd /repo && git reset -q --hard HEAD
echo "SEED $NAME vs $PID ($TIER): exit=$RC $(grep -c '^VIOLATION' /tmp/try_${NAME}_${PID}.out) violation line(s)"
grep -A1 '^VIOLATION' /tmp/try_${NAME}_${PID}.out | head -4; grep -E '^\s+\[' /tmp/try_${NAME}_${PID}.err | head -3 | cut -c1-300
