#!/bin/bash
# bg_sync.sh [dir] : private copy of /repo and /verif (default /tmp/bg) for long background runs (thorough tiers at other
# seeds, mutants, flake-rate loops) that must not disturb /repo or the harness under edit. Scratch only: nothing
# registered in MANIFEST.json uses it; remove it when done (rm -rf <dir>).
D=${1:-/tmp/bg}
mkdir -p $D/repo $D/verif
rsync -a --delete --exclude target --exclude .git /repo/ $D/repo/
rsync -a --delete --exclude 'harness/target*' --exclude work --exclude replays --exclude evidence --exclude .git /verif/ $D/verif/
sed -i "s#/repo/pocket#$D/repo/pocket#g" $D/verif/harness/Cargo.toml
grep -n "path" $D/verif/harness/Cargo.toml
