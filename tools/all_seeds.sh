#!/bin/bash
# Re-run every seeded change against the quick check of its property; prints one line per seed.
cd /verif
for d in seeded/*/; do
  n=$(basename $d)
  p=$(python3 -c "import json;print(json.load(open('$d/meta.json'))['property'])" 2>/dev/null) || continue
  r=$(tools/try_seed.sh $n $p 2>&1 | head -1)
  echo "$r"
done
