#!/usr/bin/env python3
"""Sensitivity check of the monitors: apply small hand-written mutants to /repo one at a time, make sure the
repository's own test suite still passes (otherwise the mutant is uninteresting), run the quick check of the
property it should break, and undo the change. Results go to /verif/MUTANTS.md.

  tools/mutants.py [name ...]        run all (or the named) mutants
"""
import json
import os
import subprocess
import sys
import time

REPO = os.environ.get("MUT_REPO", "/repo")
VERIF = os.environ.get("MUT_VERIF", "/verif")

# (name, property, file, old, new, note)
M = [
    ("ws-drop-cr", "C01", "pocket-types/src/json/json_parse.rs",
     "while *inposp < input.len() && [0x20, 0x09, 0x0A, 0x0D].contains(&input[*inposp]) {",
     "while *inposp < input.len() && [0x20, 0x09, 0x0A].contains(&input[*inposp]) {",
     "carriage return no longer insignificant whitespace"),
    ("unescape-b-is-bell", "C01", "pocket-types/src/json/json_escape.rs",
     "const BACKSPACE: u8 = 0x08;", "const BACKSPACE: u8 = 0x07;", "\\b decodes to 0x07"),
    ("swap-have-bits", "C01", "pocket-types/src/event.rs",
     "const HAVE_CONTENT: u8 = 0x1 << 5;\n    const HAVE_TAGS: u8 = 0x1 << 6;",
     "const HAVE_CONTENT: u8 = 0x1 << 6;\n    const HAVE_TAGS: u8 = 0x1 << 6;",
     "content and tags share a presence bit: an event without content is accepted"),
    ("kind-as-u16-unchecked", "C01", "pocket-types/src/json/json_parse.rs",
     "    if value > 65535 {\n        Err(InnerError::JsonBad(\"Kind larger than 65535\", *inposp).into())\n    } else {\n        Ok(value as u16)\n    }",
     "    Ok(value as u16)",
     "kind 65536..4294967295 wraps"),
    ("hex-inverse-entry", "C01", "pocket-types/src/macros.rs",
     "        __, 10, 11, 12, 13, 14, 15, __, __, __, __, __, __, __, __, __, // 4",
     "        __, 10, 11, 12, 13, 14, 14, __, __, __, __, __, __, __, __, __, // 4",
     "upper-case F decodes as E"),
    ("no-padding-zero-from-parts", "C02", "pocket-types/src/event.rs",
     "        // zero-padding\n        output[6] = 0;\n        output[7] = 0;\n\n        // created_at",
     "        // created_at",
     "from_parts leaves the padding bytes"),
    ("escape-slash", "C08", "pocket-types/src/json/json_escape.rs",
     "                0x22 => out.extend(\"\\\\\\\"\".as_bytes()),",
     "                0x22 => out.extend(\"\\\\\\\"\".as_bytes()),\n                0x2F => out.extend(\"\\\\/\".as_bytes()),",
     "serialiser escapes '/' (ids change)"),
    ("escape-upper-hex", "C08", "pocket-types/src/json/json_escape.rs",
     "out.extend(format!(\"\\\\u{:04x}\", codepoint).as_bytes());",
     "out.extend(format!(\"\\\\u{:04X}\", codepoint).as_bytes());",
     "\\u000B instead of \\u000b"),
    ("verify-skips-id-compare", "C08", "pocket-types/src/event.rs",
     "        if hashref != self.id().as_slice() {\n            return Err(InnerError::BadEventId.into());\n        }",
     "        if hashref[..30] != self.id().as_slice()[..30] {\n            return Err(InnerError::BadEventId.into());\n        }",
     "last two id bytes not compared"),
    ("put-bound-off-by-one", "C03", "pocket-types/src/json/mod.rs",
     "    if output.len() < offset + data.len() {",
     "    if output.len() + 1 < offset + data.len() {",
     "put() accepts a buffer one byte short (panics in copy)"),
    ("output-byte-off-by-one", "C03", "pocket-types/src/json/json_escape.rs",
     "        if $out.len() < *$pos + 1 {\n            Err(Into::<$crate::error::Error>::into(\n                $crate::error::InnerError::BufferTooSmall(*$pos + 1),",
     "        if $out.len() < *$pos {\n            Err(Into::<$crate::error::Error>::into(\n                $crate::error::InnerError::BufferTooSmall(*$pos + 1),",
     "output_byte! writes one past the end through get_unchecked_mut"),
    ("read-id-ge-to-gt", "C03", "pocket-types/src/json/json_parse.rs",
     "    if *inposp + 64 >= input.len() {\n        return Err(InnerError::JsonBad(\"Too short reading id\", *inposp).into());",
     "    if *inposp + 64 > input.len() + 8 {\n        return Err(InnerError::JsonBad(\"Too short reading id\", *inposp).into());",
     "id length check too lax: slices past the input"),
    ("since-lt-to-le", "C06", "pocket-types/src/filter.rs",
     "        if event.created_at() < self.since() {", "        if event.created_at() <= self.since() {", "since exclusive"),
    ("tag-values-any-to-first", "C06", "pocket-types/src/filter.rs",
     "                    if event_tags.matches(letter, value) {\n                        found = true;\n                        break;\n                    }\n                    j += 1;",
     "                    if event_tags.matches(letter, value) {\n                        found = true;\n                        break;\n                    }\n                    j += 2;",
     "only every other constraint value is tried"),
    ("empty-event-tags-shortcut", "C06", "pocket-types/src/filter.rs",
     "            if event_tags.is_empty() {\n                return Ok(false);\n            }",
     "            if event_tags.is_empty() {\n                return Ok(true);\n            }",
     "event without tags matches any tag constraint"),
    ("filter-since-written-as-until", "C07", "pocket-types/src/filter.rs",
     "            let until = read_u64(input, &mut inpos)?;\n            put(output, UNTIL_OFFSET, until.to_ne_bytes().as_slice())?;",
     "            let until = read_u64(input, &mut inpos)?;\n            put(output, UNTIL_OFFSET, until.max(1).to_ne_bytes().as_slice())?;",
     "until 0 becomes 1"),
    ("alignment-padding-dropped", "C04", "pocket-db/src/event_store.rs",
     "            let _ = self.event_map.append(padding, |_| Ok(padding))?;",
     "            let _ = self.event_map.append(padding, |_| Ok(padding - 1))?;",
     "alignment padding one byte short (unaligned events; not a C04 violation per se unless bytes change)"),
    ("offset-ge-to-gt", "C04", "pocket-db/src/event_store.rs",
     "        if offset >= self.read_event_map_end() {", "        if offset > self.read_event_map_end() {", "offset == end accepted"),
    ("grow-by-half-chunk-len-full", "C04", "pocket-db/src/event_store.rs",
     "                            self.event_map_file.set_len(new_file_len as u64)?;",
     "                            self.event_map_file.set_len((new_file_len - EVENT_MAP_CHUNK / 2) as u64)?;",
     "file grown by half a chunk but mapped for a whole one (SIGBUS / lost bytes)"),
    ("limit-ge-to-gt", "C05", "pocket-db/src/lib.rs",
     "                            if paircount >= filter.limit() as usize {\n                                // Since we found the limit just among this pair,",
     "                            if paircount > filter.limit() as usize {\n                                // Since we found the limit just among this pair,",
     "since moves one event too late (harmless superset) - expected NOT to be a violation"),
    ("since-advance-too-far", "C05", "pocket-db/src/lib.rs",
     "                                if event.created_at() > since {\n                                    since = event.created_at();\n                                }\n                                break 'per_event;\n                            }\n\n                            // If kind is replaceable",
     "                                if event.created_at() > since {\n                                    since = event.created_at() + 1;\n                                }\n                                break 'per_event;\n                            }\n\n                            // If kind is replaceable",
     "author+kind plan: since moved past the cut, later pairs lose events with created_at equal to the cut"),
    ("ci-key-little-endian", "C05", "pocket-db/src/lmdb/mod.rs",
     "    fn key_ci_index(created_at: Time, id: Id) -> Vec<u8> {\n        let mut key: Vec<u8> =\n            Vec::with_capacity(std::mem::size_of::<Time>() + std::mem::size_of::<Id>());\n        key.extend((u64::MAX - *created_at.deref()).to_be_bytes().as_slice());",
     "    fn key_ci_index(created_at: Time, id: Id) -> Vec<u8> {\n        let mut key: Vec<u8> =\n            Vec::with_capacity(std::mem::size_of::<Time>() + std::mem::size_of::<Id>());\n        key.extend((u64::MAX - *created_at.deref()).to_le_bytes().as_slice());",
     "scrape index keyed little-endian: ordering and ranges wrong for times differing in high bytes"),
    ("skip-postfilter-author", "C05", "pocket-db/src/lib.rs",
     "                    if event.created_at() < filter.since() {\n                        break 'per_event;\n                    }\n\n                    // check against the rest of the filter\n                    if filter.event_matches(event)? && screen(event) {",
     "                    if event.created_at() < filter.since() {\n                        break 'per_event;\n                    }\n\n                    // check against the rest of the filter\n                    if screen(event) {",
     "author plan skips event_matches (kinds ignored)"),
    ("replaced-recheck-dropped", "C09", "pocket-db/src/lib.rs",
     "                if self\n                    .find_replaceable_event_inner(&txn, event.pubkey(), event.kind())?\n                    .is_some()\n                {\n                    return Err(InnerError::Replaced.into());\n                }",
     "",
     "older replaceable event accepted next to the newer holder"),
    ("preremove-lt-instead-of-le", "C09", "pocket-db/src/lib.rs",
     "        let iter = self\n            .indexes\n            .akc_iter(author, kind, Time::min(), until, &loop_txn)?;\n\n        for result in iter {\n            let (_key, offset) = result?;\n\n            // Remove the event (this deindexes)\n            self.remove_by_offset(txn, offset)?;",
     "        let iter = self\n            .indexes\n            .akc_iter(author, kind, Time::min(), until, &loop_txn)?;\n\n        for result in iter.skip(1) {\n            let (_key, offset) = result?;\n\n            // Remove the event (this deindexes)\n            self.remove_by_offset(txn, offset)?;",
     "the newest old holder survives the pre-removal: equal/newer arrival refused or two holders"),
    ("author-check-after-remove", "C10", "pocket-db/src/lib.rs",
     "                                if target.pubkey() != event.pubkey() {\n                                    return Err(InnerError::InvalidDelete.into());\n                                }\n                                self.remove_by_id(txn, id)?;",
     "                                self.remove_by_id(txn, id)?;\n                                if target.pubkey() != event.pubkey() {\n                                    continue;\n                                }",
     "foreign id targets are removed and the request goes on"),
    ("addr-author-compare-kind", "C10", "pocket-db/src/lib.rs",
     "                            if addr.author != event.pubkey() {\n                                return Err(InnerError::InvalidDelete.into());\n                            }",
     "                            if addr.author != event.pubkey() && addr.kind.is_replaceable() {\n                                return Err(InnerError::InvalidDelete.into());\n                            }",
     "foreign parameterised addresses may be deleted"),
    ("deleted-check-lt", "C11", "pocket-db/src/lib.rs",
     "                    if let Some(time) = self.indexes.when_is_naddr_deleted(&txn, &addr)? {\n                        if event.created_at() <= time {\n                            return Err(InnerError::Deleted.into());\n                        }\n                    }\n                }\n            }\n        }",
     "                    if let Some(time) = self.indexes.when_is_naddr_deleted(&txn, &addr)? {\n                        if event.created_at() < time {\n                            return Err(InnerError::Deleted.into());\n                        }\n                    }\n                }\n            }\n        }",
     "parameterised event with created_at equal to the deletion time is accepted again"),
    ("skip-mark-deleted-when-present", "C11", "pocket-db/src/lib.rs",
     "                                self.remove_by_id(txn, id)?;\n                            }\n\n                            // Mark deleted",
     "                                self.remove_by_id(txn, id)?;\n                                continue;\n                            }\n\n                            // Mark deleted",
     "ids of stored targets are removed but not marked: resubmission accepted"),
    ("commit-before-deletion-handling", "C12", "pocket-db/src/lib.rs",
     "        // Handle deletion events\n        if event.kind() == 5.into() {\n            self.handle_deletion_event(&mut txn, event)?;\n        }",
     "        // Handle deletion events\n        if event.kind() == 5.into() {\n            txn.commit()?;\n            txn = self.indexes.write_txn()?;\n            self.handle_deletion_event(&mut txn, event)?;\n        }",
     "the request itself is committed before its tags are processed"),
    ("rebuild-skips-deleted-ids", "C16", "pocket-db/src/lib.rs",
     "        for id in deleted.drain(..) {\n            new_store.indexes.mark_deleted(&mut new_txn, id)?;\n        }",
     "        for id in deleted.drain(..).skip(1) {\n            new_store.indexes.mark_deleted(&mut new_txn, id)?;\n        }",
     "one id marker lost per rebuild"),
    ("rebuild-skips-extra-table-values", "C16", "pocket-db/src/lib.rs",
     "                new_table.put(&mut new_txn, key, value)?;",
     "                new_table.put(&mut new_txn, key, &value[..value.len().min(32)])?;",
     "extra table values truncated to 32 bytes by rebuild"),
    ("deindex-skips-ktc", "C17", "pocket-db/src/lmdb/mod.rs",
     "                        // Index by kind and tag (with created_at and id)\n                        let _ = self.ktc_index.delete(",
     "                        // Index by kind and tag (with created_at and id)\n                        let _ = self.ktc_index.get(",
     "kind+tag entries never deleted"),
    ("deindex-ac-key-from-kind", "C17", "pocket-db/src/lmdb/mod.rs",
     "        let _ = self.ac_index.delete(\n            txn,\n            &Self::key_ac_index(event.pubkey(), event.created_at(), event.id()),\n        )?;",
     "        let _ = self.ac_index.delete(\n            txn,\n            &Self::key_ac_index(event.pubkey(), event.created_at() + 0, event.id()),\n        )?;",
     "no-op control mutant (must NOT be flagged)"),
    ("remove-event-marks-deleted", "C18", "pocket-db/src/lib.rs",
     "        self.remove_by_id(&mut txn, id)?;\n        vpoint!(\"remove_event.before_commit\");",
     "        self.remove_by_id(&mut txn, id)?;\n        self.indexes.mark_deleted(&mut txn, id)?;\n        vpoint!(\"remove_event.before_commit\");",
     "explicit removal leaves a deletion marker"),
    ("vanish-giftwrap-any-kind", "C18", "pocket-db/src/lib.rs",
     "        let filter = OwnedFilter::new(&[], &[], &[Kind::from_u16(1059)], &tags, None, None, None)?;",
     "        let filter = OwnedFilter::new(&[], &[], &[Kind::from_u16(1059), Kind::from_u16(1058)], &tags, None, None, None)?;",
     "vanish also removes kind 1058 events that p-tag the key"),
    ("index-ephemeral", "C18", "pocket-db/src/lib.rs",
     "        if !event.kind().is_ephemeral() {\n            self.indexes.index(&mut txn, event, offset)?;\n        }",
     "        if !event.kind().is_ephemeral() || event.kind().as_u16() == 29999 {\n            self.indexes.index(&mut txn, event, offset)?;\n        }",
     "kind 29999 gets indexed"),
    ("tags-from-parts-count-truncated", "C19", "pocket-types/src/tags.rs",
     "        if length > u16::MAX as usize {\n            return Err(InnerError::OutOfRange(length).into());\n        }",
     "        if length > u16::MAX as usize + 1 {\n            return Err(InnerError::OutOfRange(length).into());\n        }",
     "a 65,536-byte section is accepted (length field wraps to 0)"),
    ("hll-merge-min", "C20", "pocket-types/src/hll8.rs",
     "            if other.0[i] > self.0[i] {\n                self.0[i] = other.0[i];\n            }",
     "            if other.0[i] > self.0[i] || i == 255 {\n                self.0[i] = other.0[i];\n            }",
     "register 255 is overwritten instead of maxed: merge not commutative"),
    ("hll-offset-24-accepted", "C20", "pocket-types/src/hll8.rs",
     "        if offset >= 24 {", "        if offset > 24 {", "offset 24 accepted"),
    ("commit-before-append", "C13", "pocket-db/src/lib.rs",
     "        // Store the event\n        let offset = self.events.store_event(event)? as u64;\n        vpoint!(\"store.after_append\");",
     "        // Store the event\n        let offset = self.events.store_event(event)? as u64;\n        if event.kind().as_u16() == 7 {\n            std::thread::yield_now();\n        }\n        vpoint!(\"store.after_append\");",
     "no-op control mutant (must NOT be flagged)"),
    ("dup-check-in-read-txn", "C14", "pocket-db/src/lib.rs",
     "        let mut txn = self.indexes.write_txn()?;\n        vpoint!(\"store.after_write_txn\");\n\n        // Return Duplicate if it already exists\n        if self.indexes.get_offset_by_id(&txn, event.id())?.is_some() {\n            return Err(InnerError::Duplicate.into());\n        }",
     "        // Return Duplicate if it already exists\n        {\n            let rtxn = self.indexes.read_txn()?;\n            if self.indexes.get_offset_by_id(&rtxn, event.id())?.is_some() {\n                return Err(InnerError::Duplicate.into());\n            }\n        }\n        let mut txn = self.indexes.write_txn()?;\n        vpoint!(\"store.after_write_txn\");",
     "duplicate check moved before the write lock: two simultaneous submissions both succeed"),
    ("foreign-id-with-relay-hint", "C10", "pocket-db/src/lib.rs",
     "                                if target.pubkey() != event.pubkey() {\n                                    return Err(InnerError::InvalidDelete.into());\n                                }",
     "                                if target.pubkey() != event.pubkey() && tag.next().is_none() {\n                                    return Err(InnerError::InvalidDelete.into());\n                                }",
     "the author check is skipped for 'e' tags that carry a third string (relay hint)"),
    ("no-marker-for-deleted-requests", "C11", "pocket-db/src/lib.rs",
     "                            // Mark deleted\n                            // NOTE: if we didn't have the target event, we presume this is valid,",
     "                            if self.get_event_by_id(id)?.map(|t| t.kind().as_u16() == 5).unwrap_or(false) {\n                                continue;\n                            }\n                            // Mark deleted\n                            // NOTE: if we didn't have the target event, we presume this is valid,",
     "deleting a stored deletion request removes it but leaves no marker: it can be resubmitted"),
    ("vanish-limit-8", "C18", "pocket-db/src/lib.rs",
     "        let filter = OwnedFilter::new(&[], &[event.pubkey()], &[], &tags, None, None, None)?;",
     "        let filter = OwnedFilter::new(&[], &[event.pubkey()], &[], &tags, None, None, Some(8))?;",
     "vanish only removes the 8 newest events of the author"),
    ("tc-range-excludes-since", "C05", "pocket-db/src/lmdb/mod.rs",
     "        let end_prefix = Self::key_tc_index(tagbyte, tagvalue, since, [255; 32].into());",
     "        let end_prefix = Self::key_tc_index(tagbyte, tagvalue, since, [0; 32].into());",
     "tag plan: events with created_at == since fall outside the range"),
    ("rebuild-truncates-marker-time", "C16", "pocket-db/src/lib.rs",
     "                .mark_naddr_deleted(&mut new_txn, &addr, when)?;",
     "                .mark_naddr_deleted(&mut new_txn, &addr, Time::from_u64(when.as_u64() as u32 as u64))?;",
     "address deletion times above 2^32 are truncated by rebuild"),
    ("verify-created-at-u32", "C08", "pocket-types/src/event.rs",
     "            self.pubkey(),\n            self.created_at(),\n            self.kind(),\n            self.tags()?,",
     "            self.pubkey(),\n            self.created_at().as_u64() as u32,\n            self.kind(),\n            self.tags()?,",
     "verify() hashes created_at truncated to 32 bits"),
    ("ktc-key-truncates-at-181", "C17", "pocket-db/src/lmdb/mod.rs",
     "        key.extend(kind.deref().to_be_bytes());\n        key.push(letter);\n        if tag_value.len() <= PADLEN {",
     "        key.extend(kind.deref().to_be_bytes());\n        key.push(letter);\n        if tag_value.len() < PADLEN {",
     "kind+tag key for a value of exactly 182 bytes is built by the truncating branch (same bytes: equivalent, must NOT be flagged)"),
]


def sh(cmd, cwd=None, timeout=3600):
    p = subprocess.run(cmd, cwd=cwd, shell=True, stdout=subprocess.PIPE, stderr=subprocess.STDOUT, text=True, timeout=timeout)
    return p.returncode, p.stdout


def main():
    names = set(sys.argv[1:])
    rc, out = sh("git status --porcelain", REPO)
    if out.strip():
        print("/repo is dirty; refusing")
        return 2
    rows = []
    for (name, prop, path, old, new, note) in M:
        if names and name not in names:
            continue
        full = os.path.join(REPO, path)
        src = open(full).read()
        if src.count(old) != 1:
            rows.append((name, prop, "SKIPPED: anchor text not found exactly once", "", note))
            print(f"{name}: anchor not found ({src.count(old)})")
            continue
        open(full, "w").write(src.replace(old, new))
        try:
            t0 = time.time()
            rc, out = sh("cargo test --workspace --offline --no-fail-fast 2>&1 | grep -E '^test result|error(\\[|:)' ", REPO)
            passed = sum(int(l.split(" passed")[0].split()[-1]) for l in out.splitlines() if l.startswith("test result: ok"))
            compiled = "error" not in out
            suite_ok = compiled and passed == 58 and "FAILED" not in out
            if not suite_ok:
                rows.append((name, prop, f"uninteresting: suite {'does not compile' if not compiled else f'passes {passed}/58'}", "", note))
                print(f"{name}: suite not green ({passed})")
                continue
            rc, out = sh(f"./check {prop} --tier quick 2>&1", VERIF)
            vio = [l for l in out.splitlines() if l.startswith("VIOLATION")]
            sigs = [l.strip() for l in out.splitlines() if l.startswith("  [")][:2]
            verdict = "DETECTED" if rc == 1 and vio else ("silent" if rc == 0 else f"check exit {rc}")
            rows.append((name, prop, verdict, "; ".join(s[:160] for s in sigs), note))
            print(f"{name}: {verdict} in {time.time() - t0:.0f}s {sigs[:1]}")
        finally:
            sh("git checkout -- . && git reset -q", REPO)
    with open(os.path.join(VERIF, "MUTANTS.md"), "a") as f:
        f.write(f"\n## run {time.strftime('%Y-%m-%d %H:%M:%S')}\n\n| mutant | property | verdict of ./check (quick) | first signatures | what the mutant does |\n|---|---|---|---|---|\n")
        for r in rows:
            f.write("| " + " | ".join(x.replace("|", "\\|").replace("\n", " ") for x in r) + " |\n")
    return 0


if __name__ == "__main__":
    sys.exit(main())
