#!/bin/bash
# For every repaired defect recorded in known_findings.json: reverse-apply the repair commit to /repo, run the quick
# check of the property, undo. "A fixed entry suppresses nothing: the check reports the violation again if it ever
# returns." Prints one line per (property, commit).
cd /verif
python3 - <<'PY' > /tmp/unfix_list.txt
import json
k=json.load(open("/verif/known_findings.json"))
seen=set()
for f in k["findings"]:
    if f["status"]=="fixed" and (f["property"],f["commit"]) not in seen:
        seen.add((f["property"],f["commit"])); print(f["property"],f["commit"])
PY
while read P C; do
  cd /repo
  git diff --quiet || { echo "/repo dirty"; exit 2; }
  git diff $C $C~1 -- pocket-types/src pocket-db/src > /tmp/unfix_$C.diff
  if git apply --check /tmp/unfix_$C.diff 2>/dev/null; then :; else echo "UNFIX $P $C: reverse patch does not apply any more (later changes to the same lines)"; continue; fi
  git apply /tmp/unfix_$C.diff 2>/dev/null
  if ! cargo build -p pocket-db -p pocket-types --offline >/dev/null 2>&1; then echo "UNFIX $P $C: does not compile after reverse (later code depends on the repair)"; git reset -q --hard HEAD; continue; fi
  [ -f /verif/evidence/$P.json ] && cp /verif/evidence/$P.json /tmp/evidence_keep_$P.json
  cd /verif && ./check $P --tier quick > /tmp/unfix_${P}_$C.out 2>/tmp/unfix_${P}_$C.err; RC=$?
  [ -f /tmp/evidence_keep_$P.json ] && mv /tmp/evidence_keep_$P.json /verif/evidence/$P.json
  cd /repo && git reset -q --hard HEAD
  echo "UNFIX $P $C: exit=$RC $(grep -c '^VIOLATION' /tmp/unfix_${P}_$C.out) violation line(s) $(grep -E '^\s+\[' /tmp/unfix_${P}_$C.err | head -1 | cut -c1-120)"
done < /tmp/unfix_list.txt
