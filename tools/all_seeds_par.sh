#!/bin/bash
# all_seeds_par.sh [N]: every seeded change against the quick check of its property, in N private copies of /repo and
# /verif under /tmp/as<i> (scratch, removed at the end). Result lines in /tmp/all_seeds_par.out.
N=${1:-4}
cd /verif
ls seeded | grep -v defect26_unfix > /tmp/as_list.txt
rm -f /tmp/all_seeds_par.out /tmp/as_part_*
split -n l/$N -d /tmp/as_list.txt /tmp/as_part_
i=0
for part in /tmp/as_part_*; do
  D=/tmp/as$i
  (
    tools/bg_sync.sh $D >/dev/null 2>&1
    cd $D/repo && git init -q 2>/dev/null && git add -A >/dev/null 2>&1 && git -c user.email=a@b -c user.name=x commit -qm base
    sed -i "s#/repo#$D/repo#g; s#/verif#$D/verif#g; s#/tmp/evidence_keep_#$D/evidence_keep_#g; s#/tmp/try_#$D/try_#g" $D/verif/tools/try_seed.sh
    cd $D/verif
    while read n; do
      p=$(python3 -c "import json;print(json.load(open('seeded/$n/meta.json'))['property'])" 2>/dev/null) || continue
      r=$(tools/try_seed.sh $n $p 2>&1 | head -1)
      echo "$r" >> /tmp/all_seeds_par.out
    done < $part
    rm -rf $D
  ) &
  i=$((i+1))
done
wait
sort /tmp/all_seeds_par.out -o /tmp/all_seeds_par.out
echo "done: $(grep -c 'exit=1' /tmp/all_seeds_par.out) detected of $(wc -l < /tmp/as_list.txt)"
grep -v "exit=1" /tmp/all_seeds_par.out
