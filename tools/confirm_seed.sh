#!/bin/bash
# confirm_seed.sh <worktree> <property-id> [<name>]
# Confirms a seeded change independently: existing suite passes with it, demo fails with it, demo passes without it.
# On success copies patch.diff + demo + meta into /verif/seeded/<name>/ ; always prints a verdict.
set -u
WT=$1; PID=$2; NAME=${3:-$PID}
cd "$WT" || exit 2
PATCH=_seed/patch.diff
DEMO=$(ls _seed/demo_*.rs 2>/dev/null | head -1)
[ -f "$PATCH" ] && [ -n "$DEMO" ] || { echo "SEED $NAME: missing deliverables"; exit 2; }
DEMONAME=$(basename "$DEMO" .rs)
# locate the demo in the tree
if [ -f pocket-db/tests/$DEMONAME.rs ]; then CRATE=pocket-db; elif [ -f pocket-types/tests/$DEMONAME.rs ]; then CRATE=pocket-types; else
  # put it where it compiles
  if grep -q pocket_db "$DEMO"; then CRATE=pocket-db; else CRATE=pocket-types; fi
  cp "$DEMO" $CRATE/tests/$DEMONAME.rs
fi
# start from a clean source tree + demo
git checkout -q -- pocket-db/src pocket-types/src pocket-db/Cargo.toml pocket-types/Cargo.toml 2>/dev/null
git apply --check "$PATCH" || { echo "SEED $NAME: patch does not apply"; exit 2; }
# without the change: demo passes
cargo test --offline -p $CRATE --test $DEMONAME >/tmp/seed_${NAME}_without.log 2>&1; WITHOUT=$?
git apply "$PATCH"
# with the change: demo fails, rest of suite passes
cargo test --offline -p $CRATE --test $DEMONAME >/tmp/seed_${NAME}_with.log 2>&1; WITH=$?
mv $CRATE/tests/$DEMONAME.rs /tmp/$DEMONAME.rs.$$
cargo test --workspace --offline --no-fail-fast >/tmp/seed_${NAME}_suite.log 2>&1; SUITE=$?
mv /tmp/$DEMONAME.rs.$$ $CRATE/tests/$DEMONAME.rs
NPASS=$(grep -E "^test result: ok" /tmp/seed_${NAME}_suite.log | sed -E 's/.* ([0-9]+) passed.*/\1/' | paste -sd+ | bc)
echo "SEED $NAME: demo_without_change_rc=$WITHOUT demo_with_change_rc=$WITH suite_with_change_rc=$SUITE suite_passed=$NPASS"
if [ $WITHOUT -eq 0 ] && [ $WITH -ne 0 ] && [ $SUITE -eq 0 ] && [ "$NPASS" = "58" ]; then
  D=/verif/seeded/$NAME; mkdir -p $D
  cp "$PATCH" $D/patch.diff; cp "$DEMO" $D/; [ -f _seed/notes.md ] && cp _seed/notes.md $D/notes.md
  cat > $D/confirm.txt <<EOT
confirmed by tools/confirm_seed.sh in scratch worktree $WT
demo ($CRATE/tests/$DEMONAME.rs): passes without the change (rc $WITHOUT), fails with it (rc $WITH)
existing suite with the change: cargo test --workspace --offline --no-fail-fast -> rc $SUITE, $NPASS tests passed
EOT
  echo "SEED $NAME: CONFIRMED -> $D"
else
  echo "SEED $NAME: NOT CONFIRMED (see /tmp/seed_${NAME}_*.log)"
fi
