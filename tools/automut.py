#!/usr/bin/env python3
"""Automatic mutation sweep (sensitivity of the monitors beyond the hand-written mutants and the sub-agent seeds).

Works on a PRIVATE copy (tools/bg_sync.sh <dir>), never on /repo:

  MUT_DIR=/tmp/bg2 tools/automut.py <file relative to repo> [--max N] [--seed S] [--start K]

For every mutation site in the file (relational / boolean / arithmetic / control-flow operator replacements on code
lines outside tests, comments and verif hooks) it applies the mutant, runs the quick native legs (debug+release) of
the checks that cover the crate, and records which check fired. Mutants that no check notices are then run against
the repository's own 58 tests: 'survived both' is the interesting class (equivalent mutant, or a gap). Output:
<MUT_DIR>/automut_<file>.jsonl and a summary on stdout.
"""
import json
import os
import random
import re
import subprocess
import sys
import time
from concurrent.futures import ThreadPoolExecutor

D = os.environ.get("MUT_DIR", "/tmp/bg2")
REPO = os.path.join(D, "repo")
VERIF = os.path.join(D, "verif")
TYPES = ["C01", "C02", "C03", "C06", "C07", "C08", "C19", "C20"]
DB = ["C04", "C05", "C09", "C10", "C11", "C12", "C13", "C14", "C15", "C16", "C17", "C18"]

OPS = [
    (r" <= ", [" < "]), (r" >= ", [" > "]), (r" < ", [" <= "]), (r" > ", [" >= "]),
    (r" == ", [" != "]), (r" != ", [" == "]), (r" && ", [" || "]), (r" \|\| ", [" && "]),
    (r" \+ 1\b", [" + 0", " + 2"]), (r" - 1\b", [" - 0"]), (r"\btrue\b", ["false"]), (r"\bfalse\b", ["true"]),
    (r"\bcontinue;", ["break;"]), (r"\bbreak;", ["continue;"]), (r"if !", ["if "]),
    (r"\.is_some\(\)", [".is_none()"]), (r"\.is_none\(\)", [".is_some()"]),
    (r"\.is_empty\(\)", [".len() == 1"]), (r"\.min\(", [".max("]), (r"\.max\(", [".min("]),
    (r"saturating_sub", ["wrapping_sub"]), (r"\.\.=", [".."]),
]


def sh(cmd, cwd, timeout=3600, env=None):
    e = dict(os.environ)
    e.update(env or {})
    e["CARGO_NET_OFFLINE"] = "true"
    p = subprocess.run(cmd, shell=True, cwd=cwd, stdout=subprocess.PIPE, stderr=subprocess.STDOUT, text=True, timeout=timeout, env=e)
    return p.returncode, p.stdout


def sites(src):
    out = []
    in_tests = False
    for i, line in enumerate(src.split("\n")):
        st = line.strip()
        if st.startswith("#[cfg(test)]") or st.startswith("mod test"):
            in_tests = True
        if in_tests or st.startswith("//") or st.startswith("#[") or "vpoint!" in line or "vfail!" in line or "verif" in line:
            continue
        if st.startswith("use ") or st.startswith("pub use ") or "debug_assert" in line or "fn " in line and "->" in line and "{" not in line:
            continue
        code = line.split("//")[0]
        for pat, reps in OPS:
            for m in re.finditer(pat, code):
                # generics / arrows / shifts are not relational operators
                ctx = code[max(0, m.start() - 2):m.end() + 2]
                if "->" in ctx or "=>" in ctx or "<<" in ctx or ">>" in ctx:
                    continue
                for r in reps:
                    out.append((i, m.start(), m.end(), r))
    return out


def main():
    args = sys.argv[1:]
    rel = args[0]
    mx = int(args[args.index("--max") + 1]) if "--max" in args else 40
    seed = int(args[args.index("--seed") + 1]) if "--seed" in args else 1
    start = int(args[args.index("--start") + 1]) if "--start" in args else 0
    full = os.path.join(REPO, rel)
    orig = open(full).read()
    props = TYPES if rel.startswith("pocket-types") else DB
    if "--props" in args:
        props = args[args.index("--props") + 1].split(",")
    ss = sites(orig)
    random.Random(seed).shuffle(ss)
    ss = ss[start:start + mx]
    outp = os.path.join(D, "automut_" + rel.replace("/", "_") + ".jsonl")
    print(f"{rel}: {len(ss)} mutants selected; checks {props}; results -> {outp}", flush=True)
    env = {"VERIF_ONLY_PROFILES": "debug,release"}
    for n, (li, a, b, r) in enumerate(ss):
        lines = orig.split("\n")
        before = lines[li]
        lines[li] = before[:a] + r + before[b:]
        open(full, "w").write("\n".join(lines))
        rec = {"file": rel, "line": li + 1, "before": before.strip(), "after": lines[li].strip(), "t": time.strftime("%H:%M:%S")}
        try:
            rcb, outb = sh("cd harness && (cargo build 2>&1; cargo build --release 2>&1) | grep -E '^error' | head -3", VERIF)
            if outb.strip():
                rec["verdict"] = "does-not-compile"
            else:
                def one(p):
                    rc, out = sh(f"./check {p} --tier quick 2>&1", VERIF, env=env, timeout=1800)
                    return p, rc, [l.strip()[:200] for l in out.splitlines() if l.startswith("  [")][:2]
                with ThreadPoolExecutor(max_workers=6) as ex:
                    res = list(ex.map(one, props))
                fired = {p: sig for p, rc, sig in res if rc == 1}
                odd = {p: rc for p, rc, sig in res if rc not in (0, 1)}
                rec["fired"] = fired
                rec["odd_exit"] = odd
                if fired:
                    rec["verdict"] = "detected"
                else:
                    rc, out = sh("cargo test --workspace --offline --no-fail-fast 2>&1 | grep -E '^test result|^error' ", REPO, timeout=1800)
                    passed = sum(int(l.split(" passed")[0].split()[-1]) for l in out.splitlines() if l.startswith("test result: ok"))
                    rec["suite_passed"] = passed
                    rec["verdict"] = "SURVIVED-checks-and-suite" if (passed == 58 and "FAILED" not in out and "error" not in out) else "survived-checks-killed-by-suite"
        except subprocess.TimeoutExpired:
            rec["verdict"] = "timeout"
        finally:
            open(full, "w").write(orig)
        with open(outp, "a") as f:
            f.write(json.dumps(rec) + "\n")
        print(f"[{n + 1}/{len(ss)}] {rel}:{li + 1} {rec['verdict']} {list(rec.get('fired', {}).keys())} :: {rec['after'][:90]}", flush=True)
    return 0


if __name__ == "__main__":
    sys.exit(main())
