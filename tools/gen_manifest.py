#!/usr/bin/env python3
"""Regenerate /verif/MANIFEST.json from checkcfg.PROPS (claimed checks) and properties.jsonl."""
import json, os, sys, subprocess
HERE = os.path.dirname(os.path.dirname(os.path.abspath(__file__)))
sys.path.insert(0, HERE)
from checkcfg import PROPS, NOT_APPLICABLE_REASON, HOOK_COMMITS
props = [json.loads(l) for l in open(os.path.join(HERE, "properties.jsonl"))]
checks = []
na = []
for p in props:
    pid = p["id"]
    if pid in PROPS:
        c = PROPS[pid]
        checks.append({
            "property_id": pid,
            "quick_cmd": f"./check {pid} --tier quick",
            "thorough_cmd": f"./check {pid} --tier thorough",
            "evidence_file": f"evidence/{pid}.json",
            "replay_cmd_template": f"./check {pid} --replay {{path}}",
            "engine": "pvmon",
            "level_claimed": {"category": c["level"], "text": c["level_text"], "design_ref": c.get("design_ref", f"DESIGN.md §4 {pid}")},
            "level_note": c["level_note"],
            "technique": c["technique"],
        })
    else:
        na.append({"property_id": pid, "reason": NOT_APPLICABLE_REASON.get(pid, "check not built yet (work in progress; see DESIGN.md)")})
m = {
    "version": 1,
    "setup_cmd": "./check --setup",
    "hooks": {
        "guard": "cargo feature `verif` of pocket-db (macros vpoint!/vfail! expand to nothing when off)",
        "enable": "harness/Cargo.toml depends on pocket-db by path with features=[\"verif\"]",
        "baseline_off_cmd": "cd /repo && cargo test --workspace --no-fail-fast --offline",
        "source_commits": HOOK_COMMITS,
        "add_only": True,
    },
    "engines": [{"name": "pvmon", "path": "harness", "serves_properties": sorted(PROPS.keys()),
                 "kind_free_text": "Rust harness (path deps on /repo crates) with runtime monitors: differential oracles against serde_json, reference-model history monitors, invariant probes, fault/kill injection at verif points, schedule control, run natively in debug+release and under Miri / ASan / valgrind where applicable; driven by ./check"}],
    "checks": checks,
    "not_applicable": na,
    "notes": "Runtime monitoring family. ./check <id> rebuilds the harness from /repo's working tree (cargo path dependencies), honours VERIF_SEED/VERIF_TIER, writes evidence/<id>.json, prints VIOLATION/KNOWN-FINDING lines. known_findings.json lists recorded and fixed defects.",
}
json.dump(m, open(os.path.join(HERE, "MANIFEST.json"), "w"), indent=1)
print(f"claimed {len(checks)}, not_applicable {len(na)}")
