//! Semantic (ground-truth) events and filters, and renderers that turn them into JSON texts
//! with chosen member order, whitespace, escape spellings, unknown members and integer spellings.
#![allow(dead_code)]

use crate::util::*;
use pocket_types::{
    Id, Kind, OwnedEvent, OwnedFilter, OwnedTags, Pubkey, Sig, Time,
};

// ------------------------------------------------------------------------------------------ events

#[derive(Clone, Debug, PartialEq, Eq)]
pub struct SemEvent {
    pub id: [u8; 32],
    pub pubkey: [u8; 32],
    pub sig: [u8; 64],
    pub kind: u16,
    pub created_at: u64,
    pub tags: Vec<Vec<String>>,
    pub content: String,
}

impl SemEvent {
    pub fn tags_binary_len(&self) -> usize {
        let mut n = 4 + 2 * self.tags.len();
        for t in &self.tags {
            n += 2;
            for s in t {
                n += 2 + s.len();
            }
        }
        n
    }
    pub fn binary_len(&self) -> usize {
        144 + self.tags_binary_len() + 4 + self.content.len()
    }
    pub fn owned_tags(&self) -> Result<OwnedTags, String> {
        OwnedTags::new(&self.tags).map_err(|e| format!("{e}"))
    }
    pub fn to_owned(&self) -> Result<OwnedEvent, String> {
        let tags = self.owned_tags()?;
        OwnedEvent::new(
            Id::from_bytes(self.id),
            Kind::from_u16(self.kind),
            Pubkey::from_bytes(self.pubkey),
            Sig::from_bytes(self.sig),
            &tags,
            Time::from_u64(self.created_at),
            self.content.as_bytes(),
        )
        .map_err(|e| format!("{e}"))
    }
    pub fn hash(&self) -> u64 {
        let mut v = Vec::new();
        v.extend_from_slice(&self.id);
        v.extend_from_slice(&self.pubkey);
        v.extend_from_slice(&self.sig);
        v.extend_from_slice(&self.kind.to_le_bytes());
        v.extend_from_slice(&self.created_at.to_le_bytes());
        for t in &self.tags {
            v.push(0xfe);
            for s in t {
                v.push(0xfd);
                v.extend_from_slice(s.as_bytes());
            }
        }
        v.push(0xfc);
        v.extend_from_slice(self.content.as_bytes());
        fnv(&v)
    }
    /// Compare with a pocket event through every accessor. Returns the list of disagreeing fields.
    pub fn diff_pocket(&self, e: &pocket_types::Event) -> Vec<String> {
        let mut bad = vec![];
        if e.id().as_slice() != self.id {
            bad.push(format!("id {} != {}", hex(e.id().as_slice()), hex(&self.id)));
        }
        if e.pubkey().as_slice() != self.pubkey {
            bad.push("pubkey".to_string());
        }
        if e.sig().as_slice() != self.sig {
            bad.push("sig".to_string());
        }
        if e.kind().as_u16() != self.kind {
            bad.push(format!("kind {} != {}", e.kind().as_u16(), self.kind));
        }
        if e.created_at().as_u64() != self.created_at {
            bad.push(format!("created_at {} != {}", e.created_at().as_u64(), self.created_at));
        }
        if e.content() != self.content.as_bytes() {
            bad.push(format!(
                "content {:?} != {:?}",
                show(e.content(), 60),
                show(self.content.as_bytes(), 60)
            ));
        }
        match e.tags() {
            Err(err) => bad.push(format!("tags(): {err}")),
            Ok(tags) => bad.extend(diff_tags(&self.tags, tags)),
        }
        bad
    }
}

/// Compare ground-truth tags with pocket `Tags` through count, iter and get_string.
pub fn diff_tags(truth: &[Vec<String>], tags: &pocket_types::Tags) -> Vec<String> {
    let mut bad = vec![];
    if tags.count() != truth.len() {
        bad.push(format!("tags.count {} != {}", tags.count(), truth.len()));
        return bad;
    }
    let mut n = 0;
    for (i, tag) in tags.iter().enumerate() {
        n += 1;
        if i >= truth.len() {
            bad.push("iter yields too many tags".into());
            break;
        }
        let got: Vec<Vec<u8>> = tag.map(|s| s.to_vec()).collect();
        let want: Vec<Vec<u8>> = truth[i].iter().map(|s| s.as_bytes().to_vec()).collect();
        if got != want {
            bad.push(format!(
                "tag {i} via iter: {:?} != {:?}",
                got.iter().map(|s| show(s, 30)).collect::<Vec<_>>(),
                want.iter().map(|s| show(s, 30)).collect::<Vec<_>>()
            ));
        }
        for (j, w) in want.iter().enumerate() {
            if tags.get_string(i, j) != Some(w.as_slice()) {
                bad.push(format!("get_string({i},{j}) != {:?}", show(w, 30)));
            }
        }
        if tags.get_string(i, want.len()).is_some() {
            bad.push(format!("get_string({i},{}) should be None", want.len()));
        }
    }
    if n != truth.len() {
        bad.push(format!("iter yields {n} tags, expected {}", truth.len()));
    }
    if tags.get_string(truth.len(), 0).is_some() {
        bad.push("get_string(count,0) should be None".into());
    }
    bad
}

// ------------------------------------------------------------------------------------------ filters

#[derive(Clone, Debug, PartialEq, Eq)]
pub struct SemFilter {
    pub ids: Vec<[u8; 32]>,
    pub authors: Vec<[u8; 32]>,
    pub kinds: Vec<u16>,
    /// (constraint name without '#', values)
    pub tags: Vec<(String, Vec<String>)>,
    pub since: Option<u64>,
    pub until: Option<u64>,
    pub limit: Option<u32>,
}

impl SemFilter {
    pub fn empty() -> SemFilter {
        SemFilter {
            ids: vec![],
            authors: vec![],
            kinds: vec![],
            tags: vec![],
            since: None,
            until: None,
            limit: None,
        }
    }
    pub fn tag_parts(&self) -> Vec<Vec<String>> {
        self.tags
            .iter()
            .map(|(n, vs)| {
                let mut t = vec![n.clone()];
                t.extend(vs.iter().cloned());
                t
            })
            .collect()
    }
    pub fn to_owned(&self) -> Result<OwnedFilter, String> {
        let tags = OwnedTags::new(&self.tag_parts()).map_err(|e| format!("{e}"))?;
        let ids: Vec<Id> = self.ids.iter().map(|i| Id::from_bytes(*i)).collect();
        let authors: Vec<Pubkey> = self.authors.iter().map(|i| Pubkey::from_bytes(*i)).collect();
        let kinds: Vec<Kind> = self.kinds.iter().map(|k| Kind::from_u16(*k)).collect();
        OwnedFilter::new(
            &ids,
            &authors,
            &kinds,
            &tags,
            self.since.map(Time::from_u64),
            self.until.map(Time::from_u64),
            self.limit,
        )
        .map_err(|e| format!("{e}"))
    }
    pub fn eff_since(&self) -> u64 {
        self.since.unwrap_or(0)
    }
    pub fn eff_until(&self) -> u64 {
        self.until.unwrap_or(u64::MAX)
    }
    pub fn eff_limit(&self) -> u32 {
        self.limit.unwrap_or(u32::MAX)
    }
    /// The NIP-01 reference predicate (independent of pocket's implementation)
    pub fn matches(&self, e: &SemEvent) -> bool {
        if !self.ids.is_empty() && !self.ids.contains(&e.id) {
            return false;
        }
        if !self.authors.is_empty() && !self.authors.contains(&e.pubkey) {
            return false;
        }
        if !self.kinds.is_empty() && !self.kinds.contains(&e.kind) {
            return false;
        }
        if e.created_at < self.eff_since() || e.created_at > self.eff_until() {
            return false;
        }
        for (name, values) in &self.tags {
            let ok = e
                .tags
                .iter()
                .any(|t| t.len() >= 2 && t[0] == *name && values.contains(&t[1]));
            if !ok {
                return false;
            }
        }
        true
    }
    pub fn hash(&self) -> u64 {
        fnv(format!("{:?}", self).as_bytes())
    }
    /// short human-readable form for samples
    pub fn describe(&self) -> String {
        let mut s = String::from("{");
        if !self.ids.is_empty() {
            s.push_str(&format!("ids:{} ", self.ids.len()));
        }
        if !self.authors.is_empty() {
            s.push_str(&format!(
                "authors:[{}] ",
                self.authors.iter().map(|a| hex(&a[..2])).collect::<Vec<_>>().join(",")
            ));
        }
        if !self.kinds.is_empty() {
            s.push_str(&format!("kinds:{:?} ", self.kinds));
        }
        for (n, v) in &self.tags {
            s.push_str(&format!(
                "#{}:[{}] ",
                n,
                v.iter().map(|x| show(x.as_bytes(), 12)).collect::<Vec<_>>().join(",")
            ));
        }
        if let Some(x) = self.since {
            s.push_str(&format!("since:{x} "));
        }
        if let Some(x) = self.until {
            s.push_str(&format!("until:{x} "));
        }
        if let Some(x) = self.limit {
            s.push_str(&format!("limit:{x} "));
        }
        s.push('}');
        s
    }
    pub fn diff_pocket(&self, f: &pocket_types::Filter) -> Vec<String> {
        let mut bad = vec![];
        let ids: Vec<[u8; 32]> = f.ids().map(|i| {
            let mut a = [0u8; 32];
            a.copy_from_slice(i.as_slice());
            a
        }).collect();
        if ids != self.ids || f.num_ids() != self.ids.len() {
            bad.push(format!("ids: {} values (num_ids {}) vs expected {}", ids.len(), f.num_ids(), self.ids.len()));
        }
        let authors: Vec<[u8; 32]> = f.authors().map(|i| *i.as_bytes()).collect();
        if authors != self.authors || f.num_authors() != self.authors.len() {
            bad.push(format!("authors: {} values (num_authors {}) vs expected {}", authors.len(), f.num_authors(), self.authors.len()));
        }
        let kinds: Vec<u16> = f.kinds().map(|k| k.as_u16()).collect();
        if kinds != self.kinds || f.num_kinds() != self.kinds.len() {
            bad.push(format!("kinds: {:?} vs expected {:?}", kinds, self.kinds));
        }
        if f.since().as_u64() != self.eff_since() {
            bad.push(format!("since {} != {}", f.since().as_u64(), self.eff_since()));
        }
        if f.until().as_u64() != self.eff_until() {
            bad.push(format!("until {} != {}", f.until().as_u64(), self.eff_until()));
        }
        if f.limit() != self.eff_limit() {
            bad.push(format!("limit {} != {}", f.limit(), self.eff_limit()));
        }
        match f.tags() {
            Err(e) => bad.push(format!("tags(): {e}")),
            Ok(t) => bad.extend(diff_tags(&self.tag_parts(), t)),
        }
        bad
    }
}

// ------------------------------------------------------------------------------------------ string generators

/// Scalar values of interest at encoding boundaries
pub const BOUNDARY_SCALARS: &[u32] = &[
    0x00, 0x01, 0x08, 0x09, 0x0a, 0x0b, 0x0c, 0x0d, 0x1a, 0x1f, 0x20, 0x21, 0x22, 0x23, 0x2f, 0x5b,
    0x5c, 0x5d, 0x7e, 0x7f, 0x80, 0x81, 0xa0, 0xff, 0x100, 0x7ff, 0x800, 0xfff, 0x1000, 0x2020,
    0xd7ff, 0xe000, 0xfeff, 0xfffd, 0xfffe, 0xffff, 0x10000, 0x10083, 0x1d11e, 0x1f600, 0xfffff,
    0x100000, 0x10fffe, 0x10ffff,
];

pub fn rand_scalar(rng: &mut Rng) -> char {
    loop {
        let c = match rng.below(10) {
            0 => rng.below(0x20) as u32,                 // controls
            1 | 2 | 3 => 0x20 + rng.below(0x5f) as u32,  // printable ASCII
            4 => *rng.pick(BOUNDARY_SCALARS),
            5 => 0x80 + rng.below(0x780) as u32,         // 2-byte
            6 => 0x800 + rng.below(0xf800) as u32,       // 3-byte
            7 => 0x10000 + rng.below(0x100000) as u32,   // 4-byte
            8 => *rng.pick(&[b'"' as u32, b'\\' as u32, b'/' as u32, b'[' as u32, b']' as u32, b'{' as u32, b'}' as u32, b',' as u32, b':' as u32]),
            _ => b'a' as u32 + rng.below(26) as u32,
        };
        if let Some(ch) = char::from_u32(c) {
            return ch;
        }
    }
}

pub fn rand_string(rng: &mut Rng, maxlen: usize) -> String {
    let n = match rng.below(8) {
        0 => 0,
        1 => 1,
        _ => rng.usize_below(maxlen + 1),
    };
    let mode = rng.below(4);
    let mut s = String::new();
    for _ in 0..n {
        if mode == 0 {
            s.push((b'a' + rng.below(26) as u8) as char);
        } else {
            s.push(rand_scalar(rng));
        }
    }
    s
}

pub fn rand_tags(rng: &mut Rng) -> Vec<Vec<String>> {
    let ntags = match rng.below(8) {
        0 => 0,
        1 => 1,
        2 => rng.usize_below(40),
        _ => rng.usize_below(6),
    };
    let mut tags = vec![];
    for _ in 0..ntags {
        let nstr = match rng.below(10) {
            0 => 0,
            1 => 1,
            2 => rng.usize_below(12),
            _ => 2 + rng.usize_below(3),
        };
        let mut t = vec![];
        for j in 0..nstr {
            if j == 0 && rng.chance(2, 3) {
                t.push(((b'a' + rng.below(26) as u8) as char).to_string());
            } else {
                t.push(rand_string(rng, 24));
            }
        }
        tags.push(t);
    }
    tags
}

pub fn rand_event(rng: &mut Rng) -> SemEvent {
    let kind = match rng.below(6) {
        0 => 0,
        1 => 65535,
        2 => *rng.pick(&[1u16, 3, 5, 7, 255, 256, 1059, 10000, 20000, 30023, 39999, 40000]),
        _ => rng.below(65536) as u16,
    };
    let created_at = match rng.below(8) {
        0 => 0,
        1 => u64::MAX,
        2 => *rng.pick(&[1u64, 255, 256, 65535, 65536, (1 << 32) - 1, 1 << 32, (1 << 32) + 1, 1 << 63, (1 << 63) - 1, u64::MAX - 1]),
        3 => rng.next_u64(),
        _ => 1_600_000_000 + rng.below(200_000_000),
    };
    SemEvent {
        id: rng.arr32(),
        pubkey: rng.arr32(),
        sig: rng.arr64(),
        kind,
        created_at,
        tags: rand_tags(rng),
        content: rand_string(rng, 80),
    }
}

// ------------------------------------------------------------------------------------------ JSON rendering

#[derive(Clone, Copy, Debug, PartialEq, Eq)]
pub enum Esc {
    /// shortest legal spelling: literal where allowed, short escapes, \u00xx for other controls
    Minimal,
    /// every character gets a random legal spelling
    Random,
    /// \uXXXX (lower-case hex) wherever legal (BMP), literal for astral
    AllULower,
    /// \uXXXX (upper-case hex)
    AllUUpper,
    /// the two-character escape wherever one exists (incl. `\/`), otherwise as Minimal
    Short,
}

/// Write a JSON string literal (with quotes) for `s` using escape policy `esc`.
/// Never emits surrogate-pair escapes: astral scalars are always literal.
pub fn render_string(s: &str, esc: Esc, rng: &mut Rng, out: &mut Vec<u8>) {
    out.push(b'"');
    for ch in s.chars() {
        render_char(ch, esc, rng, out);
    }
    out.push(b'"');
}

fn short_escape(ch: char) -> Option<&'static [u8]> {
    Some(match ch {
        '"' => b"\\\"",
        '\\' => b"\\\\",
        '/' => b"\\/",
        '\u{8}' => b"\\b",
        '\u{c}' => b"\\f",
        '\n' => b"\\n",
        '\r' => b"\\r",
        '\t' => b"\\t",
        _ => return None,
    })
}

pub fn render_char(ch: char, esc: Esc, rng: &mut Rng, out: &mut Vec<u8>) {
    let c = ch as u32;
    let literal_ok = c >= 0x20 && ch != '"' && ch != '\\';
    let u_ok = c <= 0xffff;
    let lit = |out: &mut Vec<u8>| {
        let mut b = [0u8; 4];
        out.extend_from_slice(ch.encode_utf8(&mut b).as_bytes());
    };
    let uesc = |out: &mut Vec<u8>, upper: bool| {
        if upper {
            out.extend_from_slice(format!("\\u{:04X}", c).as_bytes());
        } else {
            out.extend_from_slice(format!("\\u{:04x}", c).as_bytes());
        }
    };
    match esc {
        Esc::Minimal => {
            if ch == '/' {
                lit(out)
            } else if let Some(se) = short_escape(ch) {
                out.extend_from_slice(se)
            } else if literal_ok {
                lit(out)
            } else {
                uesc(out, false)
            }
        }
        Esc::Short => {
            if let Some(se) = short_escape(ch) {
                out.extend_from_slice(se)
            } else if literal_ok {
                lit(out)
            } else {
                uesc(out, false)
            }
        }
        Esc::AllULower | Esc::AllUUpper => {
            if u_ok {
                uesc(out, esc == Esc::AllUUpper)
            } else {
                lit(out)
            }
        }
        Esc::Random => {
            // collect legal spellings
            let mut opts: Vec<u8> = vec![];
            if literal_ok {
                opts.push(0);
                opts.push(0);
            }
            if short_escape(ch).is_some() {
                opts.push(1);
            }
            if u_ok {
                opts.push(2);
                opts.push(3);
                opts.push(4);
            }
            match *rng.pick(&opts) {
                0 => lit(out),
                1 => out.extend_from_slice(short_escape(ch).unwrap()),
                2 => uesc(out, false),
                3 => uesc(out, true),
                _ => {
                    // mixed-case hex digits
                    let s = format!("{:04x}", c);
                    out.extend_from_slice(b"\\u");
                    for d in s.bytes() {
                        if rng.chance(1, 2) {
                            out.push(d.to_ascii_uppercase());
                        } else {
                            out.push(d);
                        }
                    }
                }
            }
        }
    }
}

/// Whitespace policy: called at every token gap, in order.
#[derive(Clone, Debug)]
pub enum Ws {
    None,
    /// random runs of JSON whitespace at random gaps
    Random,
    /// the given bytes at gap number `at` only
    OneGap { at: usize, bytes: Vec<u8> },
    /// the given bytes at every gap
    AllGaps(Vec<u8>),
}

pub struct Gaps<'a> {
    pub ws: &'a Ws,
    pub n: usize,
}

impl<'a> Gaps<'a> {
    pub fn new(ws: &'a Ws) -> Gaps<'a> {
        Gaps { ws, n: 0 }
    }
    pub fn gap(&mut self, rng: &mut Rng, out: &mut Vec<u8>) {
        let i = self.n;
        self.n += 1;
        match self.ws {
            Ws::None => {}
            Ws::Random => {
                if rng.chance(1, 3) {
                    let k = 1 + rng.usize_below(3);
                    for _ in 0..k {
                        out.push(*rng.pick(&[0x20u8, 0x09, 0x0a, 0x0d]));
                    }
                }
            }
            Ws::OneGap { at, bytes } => {
                if *at == i {
                    out.extend_from_slice(bytes);
                }
            }
            Ws::AllGaps(bytes) => out.extend_from_slice(bytes),
        }
    }
}

#[derive(Clone, Copy, Debug, PartialEq, Eq)]
pub enum HexCase {
    Lower,
    Upper,
    Mixed,
}

pub fn render_hex(data: &[u8], case: HexCase, rng: &mut Rng, out: &mut Vec<u8>) {
    for d in hex(data).bytes() {
        let up = match case {
            HexCase::Lower => false,
            HexCase::Upper => true,
            HexCase::Mixed => rng.chance(1, 2),
        };
        out.push(if up { d.to_ascii_uppercase() } else { d });
    }
}

/// An unknown (non NIP-01) member: rendered key text (with quotes) and rendered value text.
#[derive(Clone, Debug)]
pub struct Unknown {
    /// insert before known member number `pos` in the rendered order (7 = after the last)
    pub pos: usize,
    pub key_text: Vec<u8>,
    pub val_text: Vec<u8>,
}

pub const EVENT_MEMBERS: [&str; 7] = ["id", "pubkey", "created_at", "kind", "tags", "content", "sig"];
pub const FILTER_KNOWN: [&str; 6] = ["ids", "authors", "kinds", "since", "until", "limit"];

#[derive(Clone, Debug)]
pub struct EvRender {
    /// permutation of 0..7 indexing EVENT_MEMBERS
    pub order: [usize; 7],
    pub ws: Ws,
    pub esc: Esc,
    pub hexcase: HexCase,
    pub unknown: Vec<Unknown>,
    /// override the decimal spelling of kind / created_at (for out-of-range tests)
    pub kind_text: Option<String>,
    pub created_text: Option<String>,
}

impl EvRender {
    pub fn plain() -> EvRender {
        EvRender {
            order: [0, 1, 2, 3, 4, 5, 6],
            ws: Ws::None,
            esc: Esc::Minimal,
            hexcase: HexCase::Lower,
            unknown: vec![],
            kind_text: None,
            created_text: None,
        }
    }
    pub fn random(rng: &mut Rng) -> EvRender {
        let mut order = [0, 1, 2, 3, 4, 5, 6];
        rng.shuffle(&mut order);
        let ws = if rng.chance(1, 2) { Ws::Random } else { Ws::None };
        let esc = *rng.pick(&[Esc::Minimal, Esc::Random, Esc::Random, Esc::AllULower, Esc::AllUUpper]);
        let hexcase = *rng.pick(&[HexCase::Lower, HexCase::Lower, HexCase::Upper, HexCase::Mixed]);
        let mut unknown = vec![];
        if rng.chance(1, 2) {
            let n = 1 + rng.usize_below(3);
            let mut keys: Vec<String> = vec![];
            for _ in 0..n {
                let (k, u) = rand_unknown(rng, 7, &keys, &EVENT_MEMBERS);
                keys.push(k);
                unknown.push(u);
            }
        }
        EvRender { order, ws, esc, hexcase, unknown, kind_text: None, created_text: None }
    }
}

/// Render the tags array `[[..],[..]]`
pub fn render_tags(tags: &[Vec<String>], esc: Esc, gaps: &mut Gaps, rng: &mut Rng, out: &mut Vec<u8>) {
    out.push(b'[');
    gaps.gap(rng, out);
    for (i, t) in tags.iter().enumerate() {
        if i > 0 {
            out.push(b',');
            gaps.gap(rng, out);
        }
        out.push(b'[');
        gaps.gap(rng, out);
        for (j, s) in t.iter().enumerate() {
            if j > 0 {
                out.push(b',');
                gaps.gap(rng, out);
            }
            render_string(s, esc, rng, out);
            gaps.gap(rng, out);
        }
        out.push(b']');
        gaps.gap(rng, out);
    }
    out.push(b']');
}

/// Render an event. Returns (text, number of gaps used). The text ends with the closing brace.
pub fn render_event(e: &SemEvent, r: &EvRender, rng: &mut Rng) -> (Vec<u8>, usize) {
    let mut out = Vec::with_capacity(512);
    let mut gaps = Gaps::new(&r.ws);
    gaps.gap(rng, &mut out); // leading whitespace
    out.push(b'{');
    gaps.gap(rng, &mut out);
    let mut first = true;
    let emit_unknown = |pos: usize, first: &mut bool, out: &mut Vec<u8>, gaps: &mut Gaps, rng: &mut Rng| {
        for u in r.unknown.iter().filter(|u| u.pos == pos) {
            if !*first {
                out.push(b',');
                gaps.gap(rng, out);
            }
            *first = false;
            out.extend_from_slice(&u.key_text);
            gaps.gap(rng, out);
            out.push(b':');
            gaps.gap(rng, out);
            out.extend_from_slice(&u.val_text);
            gaps.gap(rng, out);
        }
    };
    for (slot, &m) in r.order.iter().enumerate() {
        emit_unknown(slot, &mut first, &mut out, &mut gaps, rng);
        if !first {
            out.push(b',');
            gaps.gap(rng, &mut out);
        }
        first = false;
        out.push(b'"');
        out.extend_from_slice(EVENT_MEMBERS[m].as_bytes());
        out.push(b'"');
        gaps.gap(rng, &mut out);
        out.push(b':');
        gaps.gap(rng, &mut out);
        match m {
            0 => {
                out.push(b'"');
                render_hex(&e.id, r.hexcase, rng, &mut out);
                out.push(b'"');
            }
            1 => {
                out.push(b'"');
                render_hex(&e.pubkey, r.hexcase, rng, &mut out);
                out.push(b'"');
            }
            2 => match &r.created_text {
                Some(t) => out.extend_from_slice(t.as_bytes()),
                None => out.extend_from_slice(e.created_at.to_string().as_bytes()),
            },
            3 => match &r.kind_text {
                Some(t) => out.extend_from_slice(t.as_bytes()),
                None => out.extend_from_slice(e.kind.to_string().as_bytes()),
            },
            4 => render_tags(&e.tags, r.esc, &mut gaps, rng, &mut out),
            5 => render_string(&e.content, r.esc, rng, &mut out),
            _ => {
                out.push(b'"');
                render_hex(&e.sig, r.hexcase, rng, &mut out);
                out.push(b'"');
            }
        }
        gaps.gap(rng, &mut out);
    }
    emit_unknown(7, &mut first, &mut out, &mut gaps, rng);
    out.push(b'}');
    (out, gaps.n)
}

// ------------------------------------------------------------------------------------------ unknown members

/// Insignificant whitespace at a token gap inside a nested value: nothing three times out of four, else 1-3 bytes out
/// of the four JSON whitespace bytes.
fn nws(rng: &mut Rng, out: &mut Vec<u8>) {
    if rng.chance(1, 4) {
        for _ in 0..1 + rng.usize_below(3) {
            out.push(*rng.pick(&[0x20u8, 0x09, 0x0a, 0x0d]));
        }
    }
}

/// One text per (token gap, JSON whitespace byte) of a nested value holding every kind of token: the byte is put at that
/// gap only.
pub fn nested_gap_texts() -> Vec<Vec<u8>> {
    let toks: [&str; 23] = ["[", "1", ",", "{", "\"a\"", ":", "[", "true", ",", "\"x\"", "]", ",", "\"b\"", ":", "{", "}", "}", ",", "[", "]", ",", "null", "]"];
    let mut v = vec![];
    for gap in 1..toks.len() {
        for b in [0x20u8, 0x09, 0x0a, 0x0d] {
            let mut t = vec![];
            for (i, tok) in toks.iter().enumerate() {
                if i == gap {
                    t.push(b);
                }
                t.extend_from_slice(tok.as_bytes());
            }
            v.push(t);
        }
    }
    v
}

/// Random JSON value text, nesting at most `depth`.
pub fn rand_json_value(rng: &mut Rng, depth: usize, out: &mut Vec<u8>) {
    let pick = if depth == 0 { rng.below(6) } else { rng.below(9) };
    match pick {
        0 => out.extend_from_slice(b"null"),
        1 => out.extend_from_slice(b"true"),
        2 => out.extend_from_slice(b"false"),
        3 => {
            let nums: [&str; 16] = [
                "0", "-0", "1", "7", "-12", "1.5", "-0.25", "1e5", "1E-5", "2.5e+3", "0.0", "0e0",
                "123456789012345678901234567890", "65536", "18446744073709551616", "-9223372036854775808",
            ];
            out.extend_from_slice(rng.pick(&nums).as_bytes());
        }
        4 | 5 => {
            // strings, some looking like structure
            let specials: [&str; 8] = ["", "}", "]", "\"}", "{\"id\":\"x\"}", "a,b", "\\", "tags"];
            let s = if rng.chance(1, 3) {
                rng.pick(&specials).to_string()
            } else {
                rand_string(rng, 16)
            };
            let esc = *rng.pick(&[Esc::Minimal, Esc::Random]);
            render_string(&s, esc, rng, out);
        }
        6 | 7 => {
            out.push(b'[');
            nws(rng, out);
            let n = rng.usize_below(4);
            for i in 0..n {
                if i > 0 {
                    out.push(b',');
                    nws(rng, out);
                }
                rand_json_value(rng, depth - 1, out);
                nws(rng, out);
            }
            out.push(b']');
        }
        _ => {
            out.push(b'{');
            nws(rng, out);
            let n = rng.usize_below(4);
            let mut keys: Vec<String> = vec![];
            for i in 0..n {
                if i > 0 {
                    out.push(b',');
                    nws(rng, out);
                }
                let mut k = rand_string(rng, 6);
                while keys.contains(&k) {
                    k.push('x');
                }
                keys.push(k.clone());
                // nested keys may even spell known member names
                if rng.chance(1, 5) {
                    k = rng.pick(&["id", "tags", "content", "kind", "ids", "#e"]).to_string();
                    if keys[..keys.len() - 1].contains(&k) {
                        k = keys[keys.len() - 1].clone();
                    } else {
                        let l = keys.len();
                        keys[l - 1] = k.clone();
                    }
                }
                render_string(&k, Esc::Minimal, rng, out);
                nws(rng, out);
                out.push(b':');
                nws(rng, out);
                rand_json_value(rng, depth - 1, out);
                nws(rng, out);
            }
            out.push(b'}');
        }
    }
}

/// A nested value `[[[...]]]` / `{"a":{"a":...}}` of exactly `depth` levels
pub fn nested_value(depth: usize, object: bool) -> Vec<u8> {
    let mut out = Vec::new();
    for _ in 0..depth {
        if object {
            out.extend_from_slice(b"{\"a\":");
        } else {
            out.push(b'[');
        }
    }
    out.extend_from_slice(b"1");
    for _ in 0..depth {
        out.push(if object { b'}' } else { b']' });
    }
    out
}

/// A random unknown member whose (unescaped) key is not a known name and not in `taken`.
/// Returns (unescaped key, member).
pub fn rand_unknown(rng: &mut Rng, max_pos: usize, taken: &[String], known: &[&str]) -> (String, Unknown) {
    // names close to known ones, and '#' names that are NOT single-letter tag lists (digit, punctuation, two letters,
    // a non-ASCII letter, nothing after the '#'): all of them are unknown members
    let near: [&str; 24] = [
        "i", "ids", "idx", "kinds", "kin", "contents", "conten", "created_at_", "created_a", "sigs",
        "pubkeys", "tag", "search", "", "#0", "#9", "#_", "#", "##", "#ab", "#e2", "#\u{e9}", "e", "#-",
    ];
    let mut key = match rng.below(4) {
        0 => rng.pick(&near).to_string(),
        1 => rand_string(rng, 12),
        _ => {
            let n = 1 + rng.usize_below(12);
            (0..n).map(|_| (b'a' + rng.below(26) as u8) as char).collect()
        }
    };
    while known.contains(&key.as_str()) || taken.contains(&key) || (key.len() == 2 && key.as_bytes()[0] == b'#' && key.as_bytes()[1].is_ascii_alphabetic()) {
        key.push('_');
    }
    let mut key_text = vec![];
    let esc = *rng.pick(&[Esc::Minimal, Esc::Minimal, Esc::Random]);
    render_string(&key, esc, rng, &mut key_text);
    let mut val_text = vec![];
    let depth = *rng.pick(&[0usize, 1, 2, 3]);
    rand_json_value(rng, depth, &mut val_text);
    (
        key,
        Unknown {
            pos: rng.usize_below(max_pos + 1),
            key_text,
            val_text,
        },
    )
}

// ------------------------------------------------------------------------------------------ filter rendering

#[derive(Clone, Debug, PartialEq, Eq)]
pub enum FMember {
    Ids,
    Authors,
    Kinds,
    Since,
    Until,
    Limit,
    Tag(usize), // index into SemFilter.tags
}

#[derive(Clone, Debug)]
pub struct FilterRender {
    pub order: Vec<FMember>,
    pub ws: Ws,
    pub esc: Esc,
    pub hexcase: HexCase,
    pub unknown: Vec<Unknown>,
    pub since_text: Option<String>,
    pub until_text: Option<String>,
    pub limit_text: Option<String>,
}

impl FilterRender {
    /// members present in the semantic filter, in canonical order
    pub fn members_of(f: &SemFilter) -> Vec<FMember> {
        let mut v = vec![];
        if !f.ids.is_empty() {
            v.push(FMember::Ids);
        }
        if !f.authors.is_empty() {
            v.push(FMember::Authors);
        }
        if !f.kinds.is_empty() {
            v.push(FMember::Kinds);
        }
        for i in 0..f.tags.len() {
            v.push(FMember::Tag(i));
        }
        if f.limit.is_some() {
            v.push(FMember::Limit);
        }
        if f.since.is_some() {
            v.push(FMember::Since);
        }
        if f.until.is_some() {
            v.push(FMember::Until);
        }
        v
    }
    pub fn plain(f: &SemFilter) -> FilterRender {
        FilterRender {
            order: Self::members_of(f),
            ws: Ws::None,
            esc: Esc::Minimal,
            hexcase: HexCase::Lower,
            unknown: vec![],
            since_text: None,
            until_text: None,
            limit_text: None,
        }
    }
}

pub fn render_filter(f: &SemFilter, r: &FilterRender, rng: &mut Rng) -> (Vec<u8>, usize) {
    let mut out = Vec::with_capacity(256);
    let mut gaps = Gaps::new(&r.ws);
    gaps.gap(rng, &mut out);
    out.push(b'{');
    gaps.gap(rng, &mut out);
    let mut first = true;
    let nslots = r.order.len();
    let emit_unknown = |pos: usize, first: &mut bool, out: &mut Vec<u8>, gaps: &mut Gaps, rng: &mut Rng| {
        for u in r.unknown.iter().filter(|u| u.pos.min(nslots) == pos) {
            if !*first {
                out.push(b',');
                gaps.gap(rng, out);
            }
            *first = false;
            out.extend_from_slice(&u.key_text);
            gaps.gap(rng, out);
            out.push(b':');
            gaps.gap(rng, out);
            out.extend_from_slice(&u.val_text);
            gaps.gap(rng, out);
        }
    };
    for (slot, m) in r.order.iter().enumerate() {
        emit_unknown(slot, &mut first, &mut out, &mut gaps, rng);
        if !first {
            out.push(b',');
            gaps.gap(rng, &mut out);
        }
        first = false;
        let hexlist = |items: &[[u8; 32]], out: &mut Vec<u8>, gaps: &mut Gaps, rng: &mut Rng| {
            out.push(b'[');
            gaps.gap(rng, out);
            for (i, it) in items.iter().enumerate() {
                if i > 0 {
                    out.push(b',');
                    gaps.gap(rng, out);
                }
                out.push(b'"');
                render_hex(it, r.hexcase, rng, out);
                out.push(b'"');
                gaps.gap(rng, out);
            }
            out.push(b']');
        };
        let key = |name: &str, out: &mut Vec<u8>, gaps: &mut Gaps, rng: &mut Rng| {
            out.push(b'"');
            out.extend_from_slice(name.as_bytes());
            out.push(b'"');
            gaps.gap(rng, out);
            out.push(b':');
            gaps.gap(rng, out);
        };
        match m {
            FMember::Ids => {
                key("ids", &mut out, &mut gaps, rng);
                hexlist(&f.ids, &mut out, &mut gaps, rng);
            }
            FMember::Authors => {
                key("authors", &mut out, &mut gaps, rng);
                hexlist(&f.authors, &mut out, &mut gaps, rng);
            }
            FMember::Kinds => {
                key("kinds", &mut out, &mut gaps, rng);
                out.push(b'[');
                gaps.gap(rng, &mut out);
                for (i, k) in f.kinds.iter().enumerate() {
                    if i > 0 {
                        out.push(b',');
                        gaps.gap(rng, &mut out);
                    }
                    out.extend_from_slice(k.to_string().as_bytes());
                    gaps.gap(rng, &mut out);
                }
                out.push(b']');
            }
            FMember::Since => {
                key("since", &mut out, &mut gaps, rng);
                match &r.since_text {
                    Some(t) => out.extend_from_slice(t.as_bytes()),
                    None => out.extend_from_slice(f.since.unwrap_or(0).to_string().as_bytes()),
                }
            }
            FMember::Until => {
                key("until", &mut out, &mut gaps, rng);
                match &r.until_text {
                    Some(t) => out.extend_from_slice(t.as_bytes()),
                    None => out.extend_from_slice(f.until.unwrap_or(u64::MAX).to_string().as_bytes()),
                }
            }
            FMember::Limit => {
                key("limit", &mut out, &mut gaps, rng);
                match &r.limit_text {
                    Some(t) => out.extend_from_slice(t.as_bytes()),
                    None => out.extend_from_slice(f.limit.unwrap_or(u32::MAX).to_string().as_bytes()),
                }
            }
            FMember::Tag(i) => {
                let (name, values) = &f.tags[*i];
                key(&format!("#{name}"), &mut out, &mut gaps, rng);
                out.push(b'[');
                gaps.gap(rng, &mut out);
                for (j, v) in values.iter().enumerate() {
                    if j > 0 {
                        out.push(b',');
                        gaps.gap(rng, &mut out);
                    }
                    render_string(v, r.esc, rng, &mut out);
                    gaps.gap(rng, &mut out);
                }
                out.push(b']');
            }
        }
        gaps.gap(rng, &mut out);
    }
    emit_unknown(nslots, &mut first, &mut out, &mut gaps, rng);
    out.push(b'}');
    (out, gaps.n)
}

/// All permutations of 0..n (n <= 7), in lexicographic order
pub fn permutations(n: usize) -> Vec<Vec<usize>> {
    fn rec(cur: &mut Vec<usize>, used: &mut Vec<bool>, n: usize, out: &mut Vec<Vec<usize>>) {
        if cur.len() == n {
            out.push(cur.clone());
            return;
        }
        for i in 0..n {
            if !used[i] {
                used[i] = true;
                cur.push(i);
                rec(cur, used, n, out);
                let _ = cur.pop();
                used[i] = false;
            }
        }
    }
    let mut out = vec![];
    rec(&mut vec![], &mut vec![false; n], n, &mut out);
    out
}
