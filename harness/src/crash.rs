//! C13 — Killing the process at any instant leaves a consistent, reopenable store.
//!
//! The parent generates a concrete history, lets a child process (`c13-child`) execute it
//! against a store directory while journaling BEGIN/END of every call with plain write(2),
//! kills the child at a chosen verif point occurrence (the child SIGKILLs itself there) or at a
//! random instant (asynchronous leg), and then reopens the directory and compares everything
//! observable with the reference model of "completed calls" or "completed calls + the
//! interrupted one".
#![allow(dead_code)]

use crate::sem::SemEvent;
use crate::dbchecks::{one_step, Mix};
use crate::dbgen::*;
use crate::dbh::*;
use crate::model::*;
use crate::util::*;
use pocket_db::Store;
use pocket_types::Id;
use serde_json::json;
use std::collections::{BTreeMap, BTreeSet};
use std::io::Write;
use std::os::unix::process::ExitStatusExt;
use std::path::{Path, PathBuf};
use std::rc::Rc;
use std::sync::atomic::{AtomicI64, AtomicU64, Ordering};
use std::sync::{Arc, Mutex};

// ------------------------------------------------------------------------------------------ child

static HITS: AtomicU64 = AtomicU64::new(0);
static KILL_AT: AtomicI64 = AtomicI64::new(-1);

fn jwrite(fd: i32, s: &str) {
    unsafe {
        let _ = libc::write(fd, s.as_ptr() as *const libc::c_void, s.len());
    }
}

fn load_ops(path: &str) -> Vec<serde_json::Value> {
    let txt = std::fs::read_to_string(path).expect("ops file");
    serde_json::from_str::<Vec<serde_json::Value>>(&txt).expect("ops json")
}

pub fn child(args: &Args) {
    let ops = load_ops(&args.get_str("ops", ""));
    let dir = args.get_str("dir", "");
    let from = args.get_u64("from", 0) as usize;
    let upto = args.get_u64("upto", ops.len() as u64) as usize;
    let kill_at: i64 = args.get("kill-at").and_then(|s| s.parse().ok()).unwrap_or(-1);
    let jitter = args.get_u64("jitter", 0);
    let census: Option<String> = args.get("census").map(|s| s.to_string());
    let jpath = std::ffi::CString::new(args.get_str("journal", "/dev/null")).unwrap();
    let jfd = unsafe { libc::open(jpath.as_ptr(), libc::O_WRONLY | libc::O_CREAT | libc::O_APPEND, 0o644) };
    KILL_AT.store(kill_at, Ordering::SeqCst);
    let names: Arc<Mutex<Vec<&'static str>>> = Arc::new(Mutex::new(vec![]));
    let names2 = names.clone();
    let do_census = census.is_some();
    let jseed = args.seed();
    pocket_db::verif::set_point_handler(Some(Arc::new(move |name: &'static str| {
        let i = HITS.fetch_add(1, Ordering::SeqCst) as i64;
        if do_census {
            names2.lock().unwrap().push(name);
        }
        if i == KILL_AT.load(Ordering::SeqCst) {
            unsafe {
                let _ = libc::kill(libc::getpid(), libc::SIGKILL);
            }
            loop {
                std::thread::sleep(std::time::Duration::from_secs(1));
            }
        }
        if jitter > 0 {
            // deterministic pseudo-random short sleeps, to spread asynchronous kills over the code
            let mut r = Rng::new(jseed ^ (i as u64).wrapping_mul(0x9E37));
            let us = r.below(jitter);
            if us > 0 {
                std::thread::sleep(std::time::Duration::from_micros(us));
            }
        }
    })));
    jwrite(jfd, "B open\n");
    let store = match Store::new(&dir, vec![]) {
        Ok(s) => s,
        Err(e) => {
            jwrite(jfd, &format!("E open err {e}\n"));
            std::process::exit(3);
        }
    };
    jwrite(jfd, "E open ok\n");
    for k in from..upto.min(ops.len()) {
        let op = &ops[k];
        jwrite(jfd, &format!("B {k}\n"));
        let res: String = match op["t"].as_str().unwrap_or("") {
            "s" => {
                let b = unhex(op["b"].as_str().unwrap()).unwrap();
                let e = pocket_types::OwnedEvent(b);
                match store.store_event(&e) {
                    Ok(off) => format!("ok {off}"),
                    Err(e) => format!("err {:?}", classify_err(&e)).replace('\n', " "),
                }
            }
            "r" => {
                let b = unhex(op["id"].as_str().unwrap()).unwrap();
                let mut a = [0u8; 32];
                a.copy_from_slice(&b);
                match store.remove_event(Id::from_bytes(a)) {
                    Ok(()) => "ok 0".into(),
                    Err(e) => format!("err {e}").replace('\n', " "),
                }
            }
            "v" => {
                let b = unhex(op["pk"].as_str().unwrap()).unwrap();
                let mut a = [0u8; 32];
                a.copy_from_slice(&b);
                let req = crate::sem::SemEvent { id: [0xEE; 32], pubkey: a, sig: [0; 64], kind: 62, created_at: 1, tags: vec![], content: String::new() };
                let o = req.to_owned().unwrap();
                match store.vanish(&o) {
                    Ok(()) => "ok 0".into(),
                    Err(e) => format!("err {e}").replace('\n', " "),
                }
            }
            _ => "err unknown-op".into(),
        };
        jwrite(jfd, &format!("E {k} {res}\n"));
    }
    if let Some(c) = census {
        let v = names.lock().unwrap().clone();
        let mut f = std::fs::File::create(c).unwrap();
        for n in v {
            let _ = writeln!(f, "{n}");
        }
    }
    // leave without running destructors: a clean exit is just another way for a process to end
    std::process::exit(0);
}

// ------------------------------------------------------------------------------------------ parent

pub struct Hist {
    pub index: u64,
    pub ops: Vec<COp>,
    /// outcome of every op in the generation run (stores: Ok(offset)/Err; others: Ok(0))
    pub outcomes: Vec<Outcome>,
    pub events: Vec<Rc<Ev>>,
    pub ops_file: PathBuf,
}

fn ops_to_json(ops: &[COp]) -> serde_json::Value {
    json!(ops
        .iter()
        .map(|o| match o {
            COp::Store(ev) => json!({"t":"s","b":hex(&ev.bytes)}),
            COp::Remove(id) => json!({"t":"r","id":hex(id)}),
            COp::Vanish(pk) => json!({"t":"v","pk":hex(pk)}),
        })
        .collect::<Vec<_>>())
}

/// Generate a concrete history by running it once, in-process, against a scratch store.
fn generate(rep: &mut Report, seed: u64, index: u64, steps: usize) -> Hist {
    let mut rng = Rng::new(seed.wrapping_mul(0x9E37_79B9_7F4A_7C15) ^ 0xC13 ^ index.wrapping_mul(0xD1B5_4A32_D192_ED03));
    let mut p = Pools::basic();
    p.kinds = vec![1, 1, 7, 0, 10002, 30023, 1059, 20001];
    p.times = vec![100, 101, 102, 103, 200];
    p.dvals = vec!["".into(), "x".into(), "y".into()];
    // sizes that make the 2048-byte debug map grow every few events
    p.content_lens = vec![0, 5, 100, 400, 900, 2100];
    p.max_extra_tags = 2;
    let mut mix = Mix::base();
    mix.store_new = 60;
    mix.resubmit = 6;
    mix.del_own = 10;
    mix.del_foreign = 2;
    mix.del_mixed = 2;
    mix.remove = 10;
    mix.vanish = 4;
    mix.reopen = 0;
    mix.rebuild = 0;
    let mut scratch = Report::new("C13", "gen", "", seed);
    let flags = Flags { verify_each_step: true, ..Flags::default() };
    let mut eng = Eng::new(&mut scratch, "C13", "c13", seed, index, flags, 0);
    eng.jump_at = None; // the children replay the operations only
    let mut outcomes = vec![];
    for _ in 0..steps {
        if eng.aborted {
            break;
        }
        let before = eng.ops.len();
        let offs_before = eng.offsets.len();
        one_step(&mut eng, &mut rng, &p, &mix);
        if eng.ops.len() > before {
            match eng.ops.last().unwrap() {
                COp::Store(_) => {
                    if eng.offsets.len() > offs_before {
                        outcomes.push(Outcome::Ok(eng.offsets.last().unwrap().1));
                    } else {
                        outcomes.push(Outcome::Err(ErrClass::Other("refused".into())));
                    }
                }
                _ => outcomes.push(Outcome::Ok(0)),
            }
        }
    }
    // directed tail: calls that combine several mechanisms in ONE call, each needing the map to grow (content
    // larger than the 2 KiB debug chunk): a replaceable and a parameterised event displacing their holders, a
    // deletion request removing its target, and a plain large event; then a removal and a vanish
    if !eng.aborted {
        let big = 2100usize;
        let mut directed: Vec<SemEvent> = vec![];
        let a = author(0);
        let mk = |rng: &mut Rng, kind: u16, t: u64, tags: Vec<Vec<String>>, clen: usize| SemEvent { id: rng.arr32(), pubkey: a, sig: [0x51; 64], kind, created_at: t, tags, content: "g".repeat(clen) };
        directed.push(mk(&mut rng, 10002, 300, vec![], 40));
        directed.push(mk(&mut rng, 10002, 301, vec![], big));
        directed.push(mk(&mut rng, 30023, 300, vec![vec!["d".into(), "grow".into()]], 40));
        directed.push(mk(&mut rng, 30023, 301, vec![vec!["d".into(), "grow".into()]], big));
        let victim = mk(&mut rng, 1, 300, vec![vec!["t".into(), "victim".into()]], 40);
        let del = mk(&mut rng, 5, 302, vec![vec!["e".into(), hex(&victim.id)]], big);
        directed.push(victim);
        directed.push(del);
        directed.push(mk(&mut rng, 1, 303, vec![], big));
        // a deletion request with 40 tags - far more than any plausible internal batch - whose real targets sit at the
        // first, middle and last positions, the other tags naming ids that are not stored (they leave markers) and one
        // address; the whole call is one unit
        let victims: Vec<SemEvent> = (0..6).map(|k| mk(&mut rng, 1, 310 + k, vec![], 10)).collect();
        let mut tags: Vec<Vec<String>> = vec![];
        let at = [0usize, 10, 20, 31, 32, 39];
        for pos in 0..40usize {
            if let Some(k) = at.iter().position(|p| *p == pos) {
                tags.push(vec!["e".into(), hex(&victims[k].id)]);
            } else if pos == 35 {
                tags.push(vec!["a".into(), format!("30023:{}:grow", hex(&a))]);
            } else {
                tags.push(vec!["e".into(), hex(&rng.arr32())]);
            }
        }
        for v in victims {
            directed.push(v);
        }
        directed.push(mk(&mut rng, 5, 330, tags, 10));
        for d in directed {
            if eng.aborted {
                break;
            }
            if let Some(ev) = Ev::new(d) {
                let offs_before = eng.offsets.len();
                let before = eng.ops.len();
                let _ = eng.store(&ev);
                if eng.ops.len() > before {
                    if eng.offsets.len() > offs_before {
                        outcomes.push(Outcome::Ok(eng.offsets.last().unwrap().1));
                    } else {
                        outcomes.push(Outcome::Err(ErrClass::Other("refused".into())));
                    }
                }
            }
        }
        // two events sized from the map as it is now so that the first ends exactly at the end of the backing file (a
        // completely used map) and the second 3 bytes before it (the next store pads up to the end before it grows),
        // each followed by a small store: kills inside those stores meet an end marker equal to the file length
        if is_debug_build() {
            use std::os::unix::fs::FileExt;
            for slack in [0usize, 3] {
                if eng.aborted {
                    break;
                }
                let mut sized: Option<SemEvent> = None;
                if let Ok(f) = std::fs::File::open(eng.dir.join("event.map")) {
                    let mut hdr = [0u8; 8];
                    if f.read_exact_at(&mut hdr, 0).is_ok() {
                        let end = u64::from_le_bytes(hdr) as usize;
                        let flen = f.metadata().map(|m| m.len() as usize).unwrap_or(0);
                        let start = (end + 7) / 8 * 8;
                        if let Some(base) = Ev::new(mk(&mut rng, 1, 340, vec![], 0)) {
                            // too little room left: fill to the end of the NEXT chunk instead
                            let target = if flen > start + base.bytes.len() + slack { flen } else { flen + 2048 };
                            let clen = target - slack - start - base.bytes.len();
                            sized = Some(mk(&mut rng, 1, 340, vec![], clen));
                        }
                    }
                }
                for d in sized.into_iter().chain([mk(&mut rng, 1, 341, vec![], 5)]) {
                    if let Some(ev) = Ev::new(d) {
                        let offs_before = eng.offsets.len();
                        let before = eng.ops.len();
                        let _ = eng.store(&ev);
                        if eng.ops.len() > before {
                            if eng.offsets.len() > offs_before {
                                outcomes.push(Outcome::Ok(eng.offsets.last().unwrap().1));
                            } else {
                                outcomes.push(Outcome::Err(ErrClass::Other("refused".into())));
                            }
                        }
                    }
                }
                rep.count("stores_ending_at_or_just_before_the_end_of_the_map_file");
            }
        }
        rep.count("histories_with_directed_growth_tail");
    }
    let ops = eng.ops.clone();
    let events = eng.all.clone();
    if eng.aborted {
        rep.count("generation_runs_abandoned(other property diverged)");
    }
    eng.finish();
    let ops_file = workdir().join(format!("ops_{seed}_{index}.json"));
    std::fs::write(&ops_file, serde_json::to_vec(&ops_to_json(&ops)).unwrap()).unwrap();
    let n = outcomes.len().min(ops.len());
    Hist { index, ops: ops[..n].to_vec(), outcomes: outcomes[..n].to_vec(), events, ops_file }
}

/// Model and offsets after the first k ops (per the generation run's outcomes)
fn model_after(h: &Hist, k: usize) -> (Model, Vec<(u32, u64, Rc<Ev>)>) {
    let mut m = Model::new();
    let mut offs = vec![];
    for i in 0..k.min(h.ops.len()) {
        apply_op(&mut m, &mut offs, &h.ops[i], &h.outcomes[i]);
    }
    (m, offs)
}

fn apply_op(m: &mut Model, offs: &mut Vec<(u32, u64, Rc<Ev>)>, op: &COp, out: &Outcome) {
    match op {
        COp::Store(ev) => {
            if let Outcome::Ok(o) = out {
                m.apply_store(ev);
                offs.push((0, *o, ev.clone()));
            }
        }
        COp::Remove(id) => m.apply_remove(id),
        COp::Vanish(pk) => m.apply_vanish(pk),
    }
}

struct Journal {
    open_done: bool,
    open_begun: bool,
    completed: Vec<(usize, String)>,
    inflight: Option<usize>,
}

fn read_journal(path: &Path) -> Journal {
    let txt = std::fs::read_to_string(path).unwrap_or_default();
    let mut j = Journal { open_done: false, open_begun: false, completed: vec![], inflight: None };
    for line in txt.lines() {
        let mut it = line.splitn(3, ' ');
        let tag = it.next().unwrap_or("");
        let k = it.next().unwrap_or("");
        let rest = it.next().unwrap_or("");
        match (tag, k) {
            ("B", "open") => j.open_begun = true,
            ("E", "open") => j.open_done = rest.starts_with("ok"),
            ("B", k) => j.inflight = k.parse().ok(),
            ("E", k) => {
                if let Ok(k) = k.parse::<usize>() {
                    j.completed.push((k, rest.to_string()));
                    j.inflight = None;
                }
            }
            _ => {}
        }
    }
    j
}

fn copy_dir(from: &Path, to: &Path) {
    let _ = std::fs::create_dir_all(to);
    if let Ok(rd) = std::fs::read_dir(from) {
        for e in rd.flatten() {
            let p = e.path();
            let t = to.join(e.file_name());
            if p.is_dir() {
                copy_dir(&p, &t);
            } else {
                let _ = std::fs::copy(&p, &t);
            }
        }
    }
}

fn run_child(h: &Hist, dir: &Path, journal: &Path, from: usize, upto: usize, kill_at: i64, census: Option<&Path>, jitter: u64, seed: u64, async_kill_after_us: Option<u64>) -> std::process::ExitStatus {
    let exe = std::env::current_exe().unwrap();
    let mut cmd = std::process::Command::new(exe);
    let _ = cmd.args([
        "c13-child", "--ops", h.ops_file.to_str().unwrap(), "--dir", dir.to_str().unwrap(), "--journal", journal.to_str().unwrap(),
        "--from", &from.to_string(), "--upto", &upto.to_string(), "--kill-at", &kill_at.to_string(), "--jitter", &jitter.to_string(), "--seed", &seed.to_string(),
    ]);
    if let Some(c) = census {
        let _ = cmd.args(["--census", c.to_str().unwrap()]);
    }
    let _ = cmd.stdout(std::process::Stdio::null()).stderr(std::process::Stdio::null());
    let mut ch = cmd.spawn().expect("spawn child");
    if let Some(us) = async_kill_after_us {
        std::thread::sleep(std::time::Duration::from_micros(us));
        unsafe {
            let _ = libc::kill(ch.id() as i32, libc::SIGKILL);
        }
    }
    ch.wait().expect("wait child")
}

pub struct TrialOutcome {
    pub image: &'static str, // "before", "after", "vanish-subset", "open", "violation"
}

/// After the child died: reopen the directory and compare with the model(s). Findings go to `rep`.
#[allow(clippy::too_many_arguments)]
fn verify_after_kill(rep: &mut Report, h: &Hist, dir: &Path, journal: &Path, from: usize, point: &str, trial: &serde_json::Value, seed: u64, rng: &mut Rng) -> &'static str {
    let j = read_journal(journal);
    // completed ops must be a prefix from..from+n
    let ncompleted = j.completed.len();
    let done_upto = from + ncompleted;
    let (m0, _gen_offs) = model_after(h, done_upto);
    // offsets: calls completed before this child started returned what the generation run returned
    // (same operations on the same state); calls completed by this child returned what it journaled
    // (after an earlier kill the map may hold leaked bytes, so they can differ from the generation run)
    let (_, mut offs0) = model_after(h, from);
    for (k, res) in j.completed.iter() {
        if let (Some(COp::Store(ev)), Some(rest)) = (h.ops.get(*k), res.strip_prefix("ok ")) {
            if let Ok(o) = rest.trim().parse::<u64>() {
                offs0.push((0, o, ev.clone()));
            }
        }
    }
    // results journaled by the child must agree with the generation run (same ops, same start state)
    for (i, (k, res)) in j.completed.iter().enumerate() {
        let want_ok = h.outcomes.get(*k).map(|o| o.is_ok()).unwrap_or(true);
        let got_ok = res.starts_with("ok");
        if *k != from + i || want_ok != got_ok {
            rep.count("child_outcome_differs_from_generation_run");
        }
    }
    let inflight = j.inflight.filter(|k| *k == done_upto && *k < h.ops.len());
    let mut m1: Option<Model> = None;
    let mut vanish_targets: Option<BTreeSet<Id32>> = None;
    // (the interrupted call never returned its offset to anybody: no claim about it)
    let offs1 = offs0.clone();
    if let Some(k) = inflight {
        match &h.ops[k] {
            COp::Vanish(pk) => vanish_targets = Some(m0.vanish_targets(pk)),
            op => {
                let mut m = m0.clone();
                let mut scratch = vec![];
                apply_op(&mut m, &mut scratch, op, &h.outcomes[k]);
                m1 = Some(m);
            }
        }
    }
    let sig = |what: &str| format!("crash@{point}:{what}");
    let flags = Flags::default();
    let mut eng = Eng::attach(rep, "C13", "c13", seed, h.index, flags, dir.to_path_buf(), m0.clone(), &h.events, offs0.clone());
    eng.attribute_all = Some(format!("crash@{point}:followup:"));
    if eng.aborted || eng.store.is_none() {
        // open failed: flagged by attach (with the followup prefix); make the signature precise
        eng.rep.finding(&sig("reopen-failed"), &format!("Store::new on the directory of the killed process failed; trial {trial}"), trial.clone());
        eng.finish();
        return "violation";
    }
    let d0 = eng.collect_divergences();
    let mut image = "before";
    let mut bad: Option<String> = None;
    if !d0.is_empty() {
        if let Some(m) = m1.clone() {
            eng.model = m;
            let d1 = eng.collect_divergences();
            if d1.is_empty() {
                image = "after";
            } else {
                bad = Some(format!("neither the state before the interrupted call ({}; {} differences) nor after it ({}; {} differences)", d0[0].1, d0.len(), d1[0].1, d1.len()));
            }
        } else if let Some(t) = vanish_targets.clone() {
            let mut m = m0.clone();
            let store = eng.store.as_ref().unwrap();
            for id in t.iter() {
                let gone = !catch(|| store.has_event(Id::from_bytes(*id))).ok().and_then(|r| r.ok()).unwrap_or(true);
                if gone {
                    m.apply_remove(id);
                }
            }
            eng.model = m;
            let d1 = eng.collect_divergences();
            if d1.is_empty() {
                image = "vanish-subset";
            } else {
                bad = Some(format!("interrupted vanish: state is not 'completed calls minus a subset of the targets': {} ({} differences)", d1[0].1, d1.len()));
            }
        } else {
            bad = Some(format!("state differs from the completed calls although no call was in flight: {} ({} differences)", d0[0].1, d0.len()));
        }
    }
    if let Some(b) = bad {
        let aspect = if b.contains("index_entries") { "index-counts" } else if b.contains("get_event_by_id") || b.contains("has_event") { "retrievability" } else { "other" };
        eng.rep.finding(&sig(&format!("inconsistent-state:{aspect}")), &format!("{b}; trial {trial}"), trial.clone());
        eng.finish();
        return "violation";
    }
    // offsets returned by completed stores still read back (the in-flight one only if it took effect)
    eng.offsets = if image == "after" { offs1.clone() } else { offs0.clone() };
    eng.offset_set = eng.offsets.iter().map(|(g, o, _)| (*g, *o)).collect();
    eng.check_offsets();
    if eng.aborted {
        eng.finish();
        return "violation";
    }
    // "behaves as never interrupted": continue with model-checked operations, including growth
    eng.flags = Flags { verify_each_step: true, reread_offsets: true, ..Flags::default() };
    let mut p = Pools::basic();
    p.kinds = vec![1, 7, 0, 10002, 30023];
    p.times = vec![300, 301, 302];
    p.content_lens = vec![0, 50, 2500];
    let mut mix = Mix::base();
    mix.reopen = 2;
    for _ in 0..10 {
        if eng.aborted {
            break;
        }
        one_step(&mut eng, rng, &p, &mix);
    }
    let ok = !eng.aborted;
    eng.finish();
    if ok {
        image
    } else {
        "violation"
    }
}

pub fn run(args: &Args) -> Report {
    let mut rep = Report::new("C13", &args.leg(), &args.tier(), args.seed());
    let thorough = args.thorough();
    let seed = args.seed();
    let nhist = if thorough { 10 } else { 3 };
    let steps = if thorough { 40 } else { 30 };
    let only = args.get("index").and_then(|s| s.parse::<u64>().ok());
    let only_kill = args.get("kill").and_then(|s| s.parse::<i64>().ok());
    let only_from = args.get("from").and_then(|s| s.parse::<usize>().ok());
    let mut rng = Rng::new(seed ^ 0xC13C13);
    let mut points_seen: BTreeMap<String, u64> = BTreeMap::new();
    let mut images: BTreeMap<String, BTreeMap<&'static str, u64>> = BTreeMap::new();
    let mut trialno = 0u64;
    for hi in 0..nhist {
        if let Some(x) = only {
            if x != hi {
                continue;
            }
        }
        let h = generate(&mut rep, seed, hi, steps);
        if h.ops.is_empty() {
            continue;
        }
        // start points: from an empty directory (creation) and from a populated one (open)
        let froms: Vec<usize> = vec![0, h.ops.len() / 2];
        for from in froms {
            if let Some(f) = only_from {
                if f != from {
                    continue;
                }
            }
            let base = workdir().join(format!("c13_{seed}_{hi}_{from}"));
            let _ = std::fs::remove_dir_all(&base);
            std::fs::create_dir_all(&base).unwrap();
            // template directory for from > 0
            let template = base.join("template");
            if from > 0 {
                let st = run_child(&h, &template, &base.join("template.journal"), 0, from, -1, None, 0, seed, None);
                if !st.success() {
                    rep.inconclusive.push(format!("template run failed: {st:?}"));
                    continue;
                }
            }
            // census: which points are hit, in order
            let cdir = base.join("census");
            if from > 0 {
                copy_dir(&template, &cdir);
            }
            let cfile = base.join("census.txt");
            let st = run_child(&h, &cdir, &base.join("census.journal"), from, h.ops.len(), -1, Some(&cfile), 0, seed, None);
            if !st.success() {
                rep.inconclusive.push(format!("census run failed: {st:?}"));
                continue;
            }
            let names: Vec<String> = std::fs::read_to_string(&cfile).unwrap_or_default().lines().map(|s| s.to_string()).collect();
            rep.count_n("census_point_hits", names.len() as u64);
            // choose the hits to kill at
            let mut chosen: Vec<usize> = vec![];
            if thorough {
                chosen = (0..names.len()).collect();
                // (every hit is a trial; the counter only records that such calls exist)
                let mut seg_start = 0usize;
                let mut per: BTreeMap<&str, usize> = BTreeMap::new();
                for (i, n) in names.iter().enumerate() {
                    if i > seg_start && (n == "store.begin" || n == "vanish.begin" || n == "remove_event.begin" || n == "new.begin") {
                        seg_start = i;
                        if per.values().any(|c| *c >= 8) {
                            rep.count("calls_passing_one_point_many_times");
                        }
                        per.clear();
                    }
                    *per.entry(n.as_str()).or_default() += 1;
                }
                if per.values().any(|c| *c >= 8) {
                    rep.count("calls_passing_one_point_many_times");
                }
            } else {
                let mut by_name: BTreeMap<&str, Vec<usize>> = BTreeMap::new();
                for (i, n) in names.iter().enumerate() {
                    by_name.entry(n.as_str()).or_default().push(i);
                }
                for (_, v) in by_name {
                    chosen.push(v[0]);
                    chosen.push(v[v.len() / 2]);
                    chosen.push(v[v.len() - 1]);
                }
                // ... and the first occurrence of every point within every *shape* of call: the calls are the
                // segments between begin markers, and a call's shape is the set of point names it passes (a store
                // that replaces, deletes, grows the map, or does several of these passes different points), so a
                // kill "during growth inside a replacing store" is a trial of its own
                let mut seg_start = 0usize;
                let mut segs: Vec<(usize, usize)> = vec![];
                for (i, n) in names.iter().enumerate() {
                    if i > seg_start && (n == "store.begin" || n == "vanish.begin" || n == "remove_event.begin" || n == "new.begin") {
                        segs.push((seg_start, i));
                        seg_start = i;
                    }
                }
                segs.push((seg_start, names.len()));
                let mut seen_shape_point: std::collections::BTreeSet<(Vec<&str>, &str)> = Default::default();
                for (a, b) in segs {
                    let mut shape: Vec<&str> = names[a..b].iter().map(|s| s.as_str()).collect();
                    shape.sort();
                    shape.dedup();
                    for i in a..b {
                        if seen_shape_point.insert((shape.clone(), names[i].as_str())) {
                            chosen.push(i);
                        }
                    }
                }
                // a call that passes one point many times (a request with dozens of tags, a vanish with dozens of
                // targets): kills at its 1st, 2nd, 3rd, 4th, 5th, 8th, 9th, 16th, 17th, 32nd, 33rd, ... middle and last
                // passage - internal batch boundaries are powers of two more often than not
                let mut seg_start = 0usize;
                let mut segs2: Vec<(usize, usize)> = vec![];
                for (i, n) in names.iter().enumerate() {
                    if i > seg_start && (n == "store.begin" || n == "vanish.begin" || n == "remove_event.begin" || n == "new.begin") {
                        segs2.push((seg_start, i));
                        seg_start = i;
                    }
                }
                segs2.push((seg_start, names.len()));
                for (a, b) in segs2 {
                    let mut per: BTreeMap<&str, Vec<usize>> = BTreeMap::new();
                    for i in a..b {
                        per.entry(names[i].as_str()).or_default().push(i);
                    }
                    for (_, v) in per.into_iter().filter(|(_, v)| v.len() >= 8) {
                        let n = v.len();
                        let mut idx = vec![0usize, 1, n / 2, n - 1];
                        let mut p2 = 2usize;
                        while p2 < n {
                            idx.push(p2);
                            idx.push(p2 - 1);
                            if p2 + 1 < n {
                                idx.push(p2 + 1);
                            }
                            p2 *= 2;
                        }
                        for k in idx {
                            chosen.push(v[k.min(n - 1)]);
                        }
                        rep.count("calls_passing_one_point_many_times");
                    }
                }
                rep.count_n("distinct_call_shapes_x_points", seen_shape_point.len() as u64);
                chosen.sort();
                chosen.dedup();
            }
            if let Some(k) = only_kill {
                chosen = vec![k as usize];
            }
            for hit in chosen {
                trialno += 1;
                let point = names.get(hit).cloned().unwrap_or_else(|| "?".into());
                let tdir = base.join(format!("t{hit}"));
                if from > 0 {
                    copy_dir(&template, &tdir);
                }
                let jf = base.join(format!("t{hit}.journal"));
                let st = run_child(&h, &tdir, &jf, from, h.ops.len(), hit as i64, None, 0, seed, None);
                let trial = json!({"kind":"crash-trial","seed":seed,"index":hi,"from":from,"kill_at_hit":hit,"point":point,"tier":args.tier()});
                let mut hh = vec![];
                hh.extend_from_slice(point.as_bytes());
                hh.extend_from_slice(&(hi, from as u64, hit as u64).0.to_le_bytes());
                hh.extend_from_slice(&(from as u64).to_le_bytes());
                hh.extend_from_slice(&(hit as u64).to_le_bytes());
                rep.eval(fnv(&hh), true);
                if st.signal() != Some(libc::SIGKILL) {
                    rep.count("kill_point_not_reached_in_kill_run");
                    let _ = std::fs::remove_dir_all(&tdir);
                    continue;
                }
                *points_seen.entry(point.clone()).or_insert(0) += 1;
                // keep a copy of the directory as the killed process left it, for a second-generation kill
                let chain = only_kill.is_none() && (thorough && trialno % 3 == 0 || !thorough && trialno % 8 == 0);
                let tdir2 = base.join(format!("t{hit}_second"));
                if chain {
                    copy_dir(&tdir, &tdir2);
                }
                let img = verify_after_kill(&mut rep, &h, &tdir, &jf, from, &point, &trial, seed, &mut rng);
                if chain && (img == "before" || img == "after") {
                    // a directory left by a previous kill is opened and worked on by a process that is killed too
                    let j = read_journal(&jf);
                    let from2 = from + j.completed.len() + (img == "after") as usize;
                    if from2 < h.ops.len() {
                        let jf2 = base.join(format!("t{hit}_second.journal"));
                        let hit2 = rng.below(45) as i64;
                        let st2 = run_child(&h, &tdir2, &jf2, from2, h.ops.len(), hit2, None, 0, seed, None);
                        let trial2 = json!({"kind":"crash-trial-second-generation","seed":seed,"index":hi,"from":from,"kill_at_hit":hit,"then_from":from2,"then_kill_at_hit":hit2,"tier":args.tier()});
                        rep.eval(fnv(format!("{trial2}").as_bytes()), true);
                        if st2.signal() == Some(libc::SIGKILL) {
                            let img2 = verify_after_kill(&mut rep, &h, &tdir2, &jf2, from2, &format!("second-generation-after-{point}"), &trial2, seed, &mut rng);
                            rep.count(&format!("second_generation_image:{img2}"));
                        } else {
                            rep.count("second_generation_child_finished_before_kill");
                        }
                    }
                }
                let _ = std::fs::remove_dir_all(&tdir2);
                *images.entry(point.clone()).or_default().entry(img).or_insert(0) += 1;
                rep.count(&format!("image:{img}"));
                if trialno <= 3 {
                    rep.sample(json!({"trial": trial, "image": img}));
                }
                let _ = std::fs::remove_dir_all(&tdir);
            }
            // asynchronous kills: random instants, also inside LMDB / heed / mmap-append
            let nasync = if thorough { 100 } else { 9 };
            if only_kill.is_none() {
                for a in 0..nasync {
                    trialno += 1;
                    let tdir = base.join(format!("a{a}"));
                    if from > 0 {
                        copy_dir(&template, &tdir);
                    }
                    let jf = base.join(format!("a{a}.journal"));
                    let delay = 500 + rng.below(12_000);
                    let st = run_child(&h, &tdir, &jf, from, h.ops.len(), -1, None, 300, seed ^ a, Some(delay));
                    let trial = json!({"kind":"async-kill","seed":seed,"index":hi,"from":from,"delay_us":delay});
                    rep.eval(fnv(format!("{trial}").as_bytes()), true);
                    if st.signal() != Some(libc::SIGKILL) {
                        rep.count("async_child_finished_before_kill");
                        let _ = std::fs::remove_dir_all(&tdir);
                        continue;
                    }
                    let img = verify_after_kill(&mut rep, &h, &tdir, &jf, from, "async", &trial, seed, &mut rng);
                    rep.count(&format!("async_image:{img}"));
                    let _ = std::fs::remove_dir_all(&tdir);
                }
            }
            let _ = std::fs::remove_dir_all(&base);
        }
        let _ = std::fs::remove_file(&h.ops_file);
    }
    let _ = rep.extra.insert("kill_points".into(), json!(points_seen));
    let _ = rep.extra.insert("images_by_point".into(), json!(images.iter().map(|(k, v)| (k.clone(), json!(v))).collect::<BTreeMap<_, _>>()));
    if only.is_none() && only_kill.is_none() {
        for (k, v) in points_seen.iter() {
            rep.count_n(&format!("killed_at:{k}"), *v);
        }
        for must in ["es.new.after_set_len", "es.new.after_open", "es.store.mid_copy", "es.store.after_padding", "es.store.after_set_len", "es.store.after_resize",
                     "store.after_append", "store.after_index", "store.before_commit", "store.after_commit", "delete.after_tag", "remove.between_deindex",
                     "remove_event.before_commit", "vanish.after_removal", "new.after_lmdb"] {
            rep.require(&format!("killed_at:{must}"), &format!("no kill at {must}"));
        }
        rep.require("async_image:", "no asynchronous kill landed");
        rep.require("calls_passing_one_point_many_times", "no call passed one point eight times or more (no long deletion request / vanish)");
        rep.require("histories_with_directed_growth_tail", "no history carried the directed tail (replacing / deleting stores that grow the map)");
    }
    rep
}

pub fn replay(v: &serde_json::Value, rep: &mut Report, args: &Args) {
    let mut a = Args { cmd: "c13".into(), kv: args.kv.clone(), pos: vec![] };
    let _ = a.kv.insert("seed".into(), v["seed"].as_u64().unwrap_or(1).to_string());
    let _ = a.kv.insert("index".into(), v["index"].as_u64().unwrap_or(0).to_string());
    let _ = a.kv.insert("tier".into(), v["tier"].as_str().unwrap_or("quick").to_string());
    if let Some(k) = v["kill_at_hit"].as_u64() {
        let _ = a.kv.insert("kill".into(), k.to_string());
    }
    if let Some(f) = v["from"].as_u64() {
        let _ = a.kv.insert("from".into(), f.to_string());
    }
    let r = run(&a);
    rep.evaluations += r.evaluations;
    for f in r.findings {
        rep.finding_for(&f.prop, &f.signature, &f.detail, f.replay);
    }
}
