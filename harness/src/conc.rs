//! C14 — Concurrent stores serialize; concurrent queries see only whole committed states.
//!
//! Leg 1: deterministic schedule control — operation A is paused at each of its verif points
//!        while B (and C) run; the outcome must be explained by some real-time-respecting serial order.
//! Leg 2: multi-core stress with jitter; offline checker over the recorded history.
//! Leg 3: bounded progress — a hung run is examined with gdb; only an exhibited lock cycle is a verdict.
//! Growth scenarios (child processes, debug chunk size): writers growing the file against readers.
#![allow(dead_code)]

use crate::dbgen::author;
use crate::dbh::*;
use crate::model::*;
use crate::sem::*;
use crate::util::*;
use pocket_db::{ScreenResult, Store};
use pocket_types::{Event, Id, OwnedFilter};
use serde_json::json;
use std::cell::RefCell;
use std::collections::{BTreeMap, BTreeSet, HashMap};
use std::os::unix::process::ExitStatusExt;
use std::path::PathBuf;
use std::rc::Rc;
use std::sync::atomic::{AtomicBool, AtomicU64, Ordering};
use std::sync::{Arc, Barrier, Condvar, Mutex};
use std::time::{Duration, Instant};

// ------------------------------------------------------------------------------------------ ops

#[derive(Clone, Debug, PartialEq)]
pub enum Opk {
    Store(usize),
    Remove(Id32),
    Vanish(Id32),
    Has(Id32),
    Get(Id32),
    Find(usize),
    /// find_replaceable_event / find_parameterized_replaceable_event at an address
    Holder(AddrKey),
}

impl Opk {
    fn kind(&self) -> &'static str {
        match self {
            Opk::Store(_) => "store",
            Opk::Remove(_) => "remove",
            Opk::Vanish(_) => "vanish",
            Opk::Has(_) => "has_event",
            Opk::Get(_) => "get_event_by_id",
            Opk::Find(_) => "find_events",
            Opk::Holder(_) => "find_(parameterized_)replaceable_event",
        }
    }
}

#[derive(Clone, Debug, PartialEq)]
pub enum Res {
    Store(Outcome),
    Unit(bool),
    Bool(bool),
    Got(Option<Id32>, bool),
    Ids(Vec<Id32>, bool, bool), // ids, bytes all equal to the pool copies, newest-first
    Failed(String),
}

#[derive(Clone, Debug)]
pub struct Rec {
    pub thread: usize,
    pub op: Opk,
    pub call: u64,
    pub ret: u64,
    pub res: Res,
}

pub struct Ctx {
    pub store: Store,
    pub bytes: Vec<Vec<u8>>,
    pub ids: Vec<Id32>,
    pub times: Vec<u64>,
    pub by_id: HashMap<Id32, usize>,
    pub filters: Vec<OwnedFilter>,
    pub clock: AtomicU64,
}

fn id32(id: Id) -> Id32 {
    let mut a = [0u8; 32];
    a.copy_from_slice(id.as_slice());
    a
}

pub fn exec(ctx: &Ctx, op: &Opk) -> Res {
    let r = catch(|| match op {
        Opk::Store(i) => {
            let e = pocket_types::OwnedEvent(ctx.bytes[*i].clone());
            match ctx.store.store_event(&e) {
                Ok(o) => Res::Store(Outcome::Ok(o)),
                Err(e) => Res::Store(Outcome::Err(classify_err(&e))),
            }
        }
        Opk::Remove(id) => Res::Unit(ctx.store.remove_event(Id::from_bytes(*id)).is_ok()),
        Opk::Vanish(pk) => {
            let req = SemEvent { id: [0xEE; 32], pubkey: *pk, sig: [0; 64], kind: 62, created_at: 1, tags: vec![], content: String::new() };
            let o = req.to_owned().unwrap();
            Res::Unit(ctx.store.vanish(&o).is_ok())
        }
        Opk::Has(id) => match ctx.store.has_event(Id::from_bytes(*id)) {
            Ok(b) => Res::Bool(b),
            Err(e) => Res::Failed(format!("{e}")),
        },
        Opk::Get(id) => match ctx.store.get_event_by_id(Id::from_bytes(*id)) {
            Ok(None) => Res::Got(None, true),
            Ok(Some(e)) => {
                let got = id32(e.id());
                let ok = ctx.by_id.get(&got).map(|i| ctx.bytes[*i] == e.as_bytes()).unwrap_or(false);
                Res::Got(Some(got), ok)
            }
            Err(e) => Res::Failed(format!("{e}")),
        },
        Opk::Holder(a) => {
            let pa = to_addr(a);
            let r = if is_param(a.kind) { ctx.store.find_parameterized_replaceable_event(&pa) } else { ctx.store.find_replaceable_event(pa.author, pa.kind) };
            match r {
                Ok(None) => Res::Got(None, true),
                Ok(Some(e)) => {
                    let got = id32(e.id());
                    let ok = ctx.by_id.get(&got).map(|i| ctx.bytes[*i] == e.as_bytes()).unwrap_or(false);
                    Res::Got(Some(got), ok)
                }
                Err(e) => Res::Failed(format!("{e}")),
            }
        }
        Opk::Find(fi) => match ctx.store.find_events(&ctx.filters[*fi], true, 0, 0, |_| {
            on_point("screen");
            ScreenResult::Match
        }) {
            Ok((evs, _)) => {
                let mut ids = vec![];
                let mut ok = true;
                let mut sorted = true;
                let mut last = u64::MAX;
                for e in evs {
                    let got = id32(e.id());
                    if ctx.by_id.get(&got).map(|i| ctx.bytes[*i] == e.as_bytes()).unwrap_or(false) {
                        ids.push(got);
                    } else {
                        ids.push(got);
                        ok = false;
                    }
                    let t = e.created_at().as_u64();
                    if t > last {
                        sorted = false;
                    }
                    last = t;
                }
                Res::Ids(ids, ok, sorted)
            }
            Err(e) => Res::Failed(format!("{e}")),
        },
    });
    match r {
        Ok(x) => x,
        Err(p) => Res::Failed(format!("panic at {}: {}", p.location, p.message)),
    }
}

// ------------------------------------------------------------------------------------------ point handler

#[derive(PartialEq, Clone, Copy, Debug)]
enum PState {
    Running,
    Parked,
    Released,
}

pub struct PauseCtl {
    target: Option<(String, u64)>,
    counts: Mutex<HashMap<&'static str, u64>>,
    census: Mutex<Vec<(&'static str, u64)>>,
    state: Mutex<PState>,
    cv: Condvar,
}

impl PauseCtl {
    fn new(target: Option<(String, u64)>) -> Arc<PauseCtl> {
        Arc::new(PauseCtl { target, counts: Mutex::new(HashMap::new()), census: Mutex::new(vec![]), state: Mutex::new(PState::Running), cv: Condvar::new() })
    }
}

thread_local! {
    static TL_CTL: RefCell<Option<Arc<PauseCtl>>> = const { RefCell::new(None) };
    static TL_RNG: RefCell<u64> = const { RefCell::new(0) };
}

static JITTER_US: AtomicU64 = AtomicU64::new(0);

pub fn install_handler() {
    pocket_db::verif::set_point_handler(Some(Arc::new(on_point)));
}

/// Called at every verif point, and by the harness's own screen callback ("screen": the caller's
/// screening function runs in the middle of a query's scan and may block for as long as it likes)
pub fn on_point(name: &'static str) {
    {
        let ctl = TL_CTL.with(|c| c.borrow().clone());
        if let Some(ctl) = ctl {
            let n = {
                let mut c = ctl.counts.lock().unwrap();
                let e = c.entry(name).or_insert(0);
                let n = *e;
                *e += 1;
                n
            };
            ctl.census.lock().unwrap().push((name, n));
            if let Some((tn, to)) = &ctl.target {
                if tn == name && *to == n {
                    let mut st = ctl.state.lock().unwrap();
                    *st = PState::Parked;
                    ctl.cv.notify_all();
                    while *st != PState::Released {
                        st = ctl.cv.wait(st).unwrap();
                    }
                }
            }
        }
        let j = JITTER_US.load(Ordering::Relaxed);
        if j > 0 {
            let us = TL_RNG.with(|r| {
                let mut x = *r.borrow();
                x = x.wrapping_mul(6364136223846793005).wrapping_add(1442695040888963407);
                *r.borrow_mut() = x;
                (x >> 33) % (j + 1)
            });
            if us > j / 2 {
                std::thread::sleep(Duration::from_micros(us));
            } else if us % 3 == 0 {
                std::thread::yield_now();
            }
        }
    }
}

// ------------------------------------------------------------------------------------------ scenarios (leg 1)

pub struct Scenario {
    pub name: String,
    pub events: Vec<Rc<Ev>>,
    pub filters: Vec<SemFilter>,
    pub prepopulate: Vec<usize>,
    pub ops: Vec<Opk>, // ops[0] = A (paused), ops[1..] = B, C
}

fn mk(rng: &mut Rng, pk: u8, kind: u16, t: u64, tags: Vec<Vec<String>>) -> Rc<Ev> {
    Ev::new(SemEvent { id: rng.arr32(), pubkey: author(pk), sig: [0x51; 64], kind, created_at: t, tags, content: "c14".into() }).unwrap()
}

pub fn catalogue(rng: &mut Rng) -> Vec<Scenario> {
    let mut v = vec![];
    let base = |rng: &mut Rng| -> Vec<Rc<Ev>> {
        vec![
            mk(rng, 0, 1, 100, vec![vec!["t".into(), "a".into()]]),
            mk(rng, 1, 1, 101, vec![vec!["t".into(), "b".into()]]),
            mk(rng, 0, 10002, 100, vec![]),
            mk(rng, 0, 30023, 100, vec![vec!["d".into(), "x".into()]]),
        ]
    };
    let all_filter = SemFilter { authors: vec![author(0), author(1)], ..SemFilter::empty() };
    // S1: the same event twice (and three times)
    for n in [2usize, 3] {
        let mut ev = base(rng);
        ev.push(mk(rng, 0, 1, 150, vec![vec!["t".into(), "a".into()]]));
        let i = ev.len() - 1;
        v.push(Scenario { name: format!("same-event-x{n}"), events: ev, filters: vec![all_filter.clone()], prepopulate: vec![0, 1, 2, 3], ops: (0..n).map(|_| Opk::Store(i)).collect() });
    }
    // S2/S3: two events for one replaceable / parameterised address: older-newer, newer-older, equal
    for (kind, tags) in [(10002u16, vec![]), (30023u16, vec![vec!["d".to_string(), "x".to_string()]])] {
        for (ta, tb) in [(120u64, 130u64), (130, 120), (125, 125), (90, 95)] {
            let mut ev = base(rng);
            ev.push(mk(rng, 0, kind, ta, tags.clone()));
            ev.push(mk(rng, 0, kind, tb, tags.clone()));
            let n = ev.len();
            let f = SemFilter { authors: vec![author(0)], kinds: vec![kind], ..SemFilter::empty() };
            v.push(Scenario { name: format!("replace-k{kind}-{ta}-vs-{tb}"), events: ev.clone(), filters: vec![f.clone()], prepopulate: vec![0, 1, 2, 3], ops: vec![Opk::Store(n - 2), Opk::Store(n - 1)] });
            v.push(Scenario { name: format!("replace-k{kind}-{ta}-vs-{tb}+query"), events: ev, filters: vec![f], prepopulate: vec![0, 1, 2, 3], ops: vec![Opk::Store(n - 2), Opk::Store(n - 1), Opk::Find(0)] });
        }
    }
    // S4: store vs readers that would see it
    {
        let mut ev = base(rng);
        ev.push(mk(rng, 1, 1, 160, vec![vec!["t".into(), "b".into()]]));
        let i = ev.len() - 1;
        let id = ev[i].sem.id;
        let f = SemFilter { tags: vec![("t".into(), vec!["b".into()])], ..SemFilter::empty() };
        for (nm, b) in [("find", Opk::Find(0)), ("get", Opk::Get(id)), ("has", Opk::Has(id))] {
            v.push(Scenario { name: format!("store-vs-{nm}"), events: ev.clone(), filters: vec![f.clone()], prepopulate: vec![0, 1, 2, 3], ops: vec![Opk::Store(i), b.clone()] });
            // and the reader paused while the writer runs to completion
            v.push(Scenario { name: format!("{nm}-vs-store"), events: ev.clone(), filters: vec![f.clone()], prepopulate: vec![0, 1, 2, 3], ops: vec![b, Opk::Store(i)] });
        }
    }
    // S4b: a query over several authors / kinds / tag values parked in the middle of its scan (at the
    //      caller's screen callback) while two stores commit one after the other
    {
        let mut ev = vec![
            mk(rng, 0, 1, 100, vec![vec!["t".into(), "a".into()]]),
            mk(rng, 1, 1, 101, vec![vec!["t".into(), "b".into()]]),
            mk(rng, 0, 7, 102, vec![vec!["t".into(), "a".into()]]),
            mk(rng, 1, 7, 103, vec![vec!["t".into(), "b".into()]]),
        ];
        ev.push(mk(rng, 0, 1, 150, vec![vec!["t".into(), "a".into()]])); // x: author 0 / kind 1 / t=a
        ev.push(mk(rng, 1, 7, 151, vec![vec!["t".into(), "b".into()]])); // y: author 1 / kind 7 / t=b
        let (x, y) = (ev.len() - 2, ev.len() - 1);
        let filters = vec![
            SemFilter { authors: vec![author(0), author(1)], kinds: vec![1, 7], ..SemFilter::empty() },
            SemFilter { authors: vec![author(1), author(0)], kinds: vec![7, 1], ..SemFilter::empty() },
            SemFilter { authors: vec![author(0), author(1)], tags: vec![("t".into(), vec!["a".into(), "b".into()])], ..SemFilter::empty() },
            SemFilter { kinds: vec![1, 7], tags: vec![("t".into(), vec!["a".into(), "b".into()])], ..SemFilter::empty() },
            SemFilter { tags: vec![("t".into(), vec!["b".into(), "a".into()])], ..SemFilter::empty() },
            SemFilter { authors: vec![author(0), author(1)], ..SemFilter::empty() },
            SemFilter { kinds: vec![1, 7], ..SemFilter::empty() },
            SemFilter { ids: vec![ev[x].sem.id, ev[0].sem.id, ev[y].sem.id], ..SemFilter::empty() },
            SemFilter { ids: vec![ev[y].sem.id, ev[1].sem.id, ev[x].sem.id], ..SemFilter::empty() },
        ];
        for fi in 0..filters.len() {
            for (first, second) in [(x, y), (y, x)] {
                v.push(Scenario {
                    name: format!("parked-query-{}-vs-stores-{}", plan_of(&filters[fi]), if first == x { "xy" } else { "yx" }),
                    events: ev.clone(),
                    filters: filters.clone(),
                    prepopulate: vec![0, 1, 2, 3],
                    ops: vec![Opk::Find(fi), Opk::Store(first), Opk::Store(second)],
                });
            }
        }
    }
    // S4c: a query that has already found the holder of a replaceable / parameterised address, parked anywhere up
    //      to its last step, while a store replaces that holder: the answer is the old holder or the new one, never
    //      neither and never both
    for (kind, tags) in [(10002u16, vec![]), (30023u16, vec![vec!["d".to_string(), "x".to_string()]])] {
        let mut ev = base(rng);
        ev.push(mk(rng, 0, kind, 170, tags.clone()));
        let n = ev.len();
        let holder = if kind == 10002 { 2 } else { 3 };
        let filters = vec![
            SemFilter { authors: vec![author(0)], kinds: vec![kind], ..SemFilter::empty() },
            SemFilter { authors: vec![author(0)], ..SemFilter::empty() },
            SemFilter { kinds: vec![kind], ..SemFilter::empty() },
            SemFilter { ids: vec![ev[holder].sem.id, ev[n - 1].sem.id], ..SemFilter::empty() },
        ];
        for fi in 0..filters.len() {
            v.push(Scenario {
                name: format!("parked-query-{}-vs-replacing-store-k{kind}", plan_of(&filters[fi])),
                events: ev.clone(),
                filters: filters.clone(),
                prepopulate: vec![0, 1, 2, 3],
                ops: vec![Opk::Find(fi), Opk::Store(n - 1)],
            });
        }
    }
    // S4d: the address lookups (find_replaceable_event / find_parameterized_replaceable_event) against a store that
    //      replaces the holder, and against a deletion of the address: an occupied address never reads as empty
    for (kind, tags) in [(10002u16, vec![]), (30023u16, vec![vec!["d".to_string(), "x".to_string()]])] {
        let mut ev = base(rng);
        ev.push(mk(rng, 0, kind, 170, tags.clone()));
        let n = ev.len();
        let addr = addr_of(&ev[n - 1].sem).unwrap();
        let f = SemFilter { authors: vec![author(0)], kinds: vec![kind], ..SemFilter::empty() };
        v.push(Scenario { name: format!("holder-lookup-vs-replacing-store-k{kind}"), events: ev.clone(), filters: vec![f.clone()], prepopulate: vec![0, 1, 2, 3], ops: vec![Opk::Holder(addr.clone()), Opk::Store(n - 1)] });
        v.push(Scenario { name: format!("replacing-store-vs-holder-lookup-k{kind}"), events: ev, filters: vec![f], prepopulate: vec![0, 1, 2, 3], ops: vec![Opk::Store(n - 1), Opk::Holder(addr.clone()), Opk::Holder(addr)] });
    }
    // S5: remove vs query / get
    {
        let ev = base(rng);
        let id = ev[1].sem.id;
        let f = SemFilter { authors: vec![author(1)], ..SemFilter::empty() };
        v.push(Scenario { name: "remove-vs-find".into(), events: ev.clone(), filters: vec![f.clone()], prepopulate: vec![0, 1, 2, 3], ops: vec![Opk::Remove(id), Opk::Find(0)] });
        v.push(Scenario { name: "remove-vs-get".into(), events: ev.clone(), filters: vec![f.clone()], prepopulate: vec![0, 1, 2, 3], ops: vec![Opk::Remove(id), Opk::Get(id)] });
        v.push(Scenario { name: "find-vs-remove".into(), events: ev.clone(), filters: vec![f.clone()], prepopulate: vec![0, 1, 2, 3], ops: vec![Opk::Find(0), Opk::Remove(id)] });
        // a lookup parked between the index read and the read of the event bytes while the event is removed / replaced
        v.push(Scenario { name: "get-vs-remove".into(), events: ev.clone(), filters: vec![f.clone()], prepopulate: vec![0, 1, 2, 3], ops: vec![Opk::Get(id), Opk::Remove(id)] });
        v.push(Scenario { name: "has-vs-remove".into(), events: ev.clone(), filters: vec![f.clone()], prepopulate: vec![0, 1, 2, 3], ops: vec![Opk::Has(id), Opk::Remove(id)] });
        // removal vs the store of an unrelated event, of the removed event itself (re-submission) and a second removal:
        // two writers that need nothing from each other but the write lock
        {
            let mut ev2 = base(rng);
            ev2.push(mk(rng, 0, 1, 160, vec![]));
            let n2 = ev2.len();
            let f2 = SemFilter { authors: vec![author(0), author(1)], kinds: vec![1], ..SemFilter::empty() };
            v.push(Scenario { name: "remove-vs-store-of-another".into(), events: ev2.clone(), filters: vec![f2.clone()], prepopulate: vec![0, 1, 2, 3], ops: vec![Opk::Remove(id), Opk::Store(n2 - 1)] });
            v.push(Scenario { name: "store-of-another-vs-remove".into(), events: ev2.clone(), filters: vec![f2.clone()], prepopulate: vec![0, 1, 2, 3], ops: vec![Opk::Store(n2 - 1), Opk::Remove(id), Opk::Find(0)] });
            v.push(Scenario { name: "remove-vs-resubmission".into(), events: ev2.clone(), filters: vec![f2.clone()], prepopulate: vec![0, 1, 2, 3], ops: vec![Opk::Remove(id), Opk::Store(1)] });
            v.push(Scenario { name: "remove-vs-remove-of-another".into(), events: ev2.clone(), filters: vec![f2], prepopulate: vec![0, 1, 2, 3], ops: vec![Opk::Remove(id), Opk::Remove(ev2[0].sem.id)] });
        }
        let mut ev3 = ev.clone();
        ev3.push(mk(rng, 0, 10002, 180, vec![]));
        let holder = ev3[2].sem.id;
        let n3 = ev3.len();
        v.push(Scenario { name: "get-of-holder-vs-replacing-store".into(), events: ev3.clone(), filters: vec![f.clone()], prepopulate: vec![0, 1, 2, 3], ops: vec![Opk::Get(holder), Opk::Store(n3 - 1)] });
        v.push(Scenario { name: "replacing-store-vs-get-of-holder".into(), events: ev3, filters: vec![f], prepopulate: vec![0, 1, 2, 3], ops: vec![Opk::Store(n3 - 1), Opk::Get(holder), Opk::Has(holder)] });
    }
    // S6: deletion request vs store of its target / read of its target
    {
        let mut ev = base(rng);
        let target = mk(rng, 0, 1, 140, vec![]);
        let del = mk(rng, 0, 5, 200, vec![vec!["e".into(), hex(&target.sem.id)]]);
        ev.push(target.clone());
        ev.push(del);
        let n = ev.len();
        let f = SemFilter { authors: vec![author(0)], kinds: vec![1, 5], ..SemFilter::empty() };
        v.push(Scenario { name: "delete-vs-store-of-target".into(), events: ev.clone(), filters: vec![f.clone()], prepopulate: vec![0, 1, 2, 3], ops: vec![Opk::Store(n - 1), Opk::Store(n - 2)] });
        v.push(Scenario { name: "store-of-target-vs-delete".into(), events: ev.clone(), filters: vec![f.clone()], prepopulate: vec![0, 1, 2, 3], ops: vec![Opk::Store(n - 2), Opk::Store(n - 1)] });
        v.push(Scenario { name: "delete-vs-get-of-target".into(), events: ev.clone(), filters: vec![f.clone()], prepopulate: vec![0, 1, 2, 3, n - 2], ops: vec![Opk::Store(n - 1), Opk::Get(target.sem.id), Opk::Find(0)] });
        // the same with a request of ANOTHER author (to be refused when the target is there, and harmless to the target
        // either way), alone and mixed with a target of its own
        {
            let mut ev = base(rng);
            let target = mk(rng, 0, 1, 140, vec![]);
            let own = mk(rng, 1, 1, 141, vec![]);
            let fdel = mk(rng, 1, 5, 200, vec![vec!["e".into(), hex(&target.sem.id)]]);
            let mdel = mk(rng, 1, 5, 201, vec![vec!["e".into(), hex(&own.sem.id)], vec!["e".into(), hex(&target.sem.id)]]);
            ev.push(own);
            ev.push(target.clone());
            ev.push(fdel);
            ev.push(mdel);
            let n = ev.len();
            let f = SemFilter { authors: vec![author(0), author(1)], kinds: vec![1, 5], ..SemFilter::empty() };
            v.push(Scenario { name: "foreign-delete-vs-store-of-target".into(), events: ev.clone(), filters: vec![f.clone()], prepopulate: vec![0, 1, 2, 3], ops: vec![Opk::Store(n - 2), Opk::Store(n - 3)] });
            v.push(Scenario { name: "store-of-target-vs-foreign-delete".into(), events: ev.clone(), filters: vec![f.clone()], prepopulate: vec![0, 1, 2, 3], ops: vec![Opk::Store(n - 3), Opk::Store(n - 2), Opk::Get(target.sem.id)] });
            v.push(Scenario { name: "store-of-target-vs-mixed-delete".into(), events: ev.clone(), filters: vec![f.clone()], prepopulate: vec![0, 1, 2, 3, n - 4], ops: vec![Opk::Store(n - 3), Opk::Store(n - 1), Opk::Find(0)] });
            v.push(Scenario { name: "mixed-delete-vs-store-of-target".into(), events: ev.clone(), filters: vec![f.clone()], prepopulate: vec![0, 1, 2, 3, n - 4], ops: vec![Opk::Store(n - 1), Opk::Store(n - 3)] });
            // address form: author 1 names author 0's replaceable address while author 0 stores there
            let fadel = mk(rng, 1, 5, 200, vec![vec!["a".into(), format!("10002:{}:", hex(&author(0)))]]);
            let newer = mk(rng, 0, 10002, 150, vec![]);
            let mut ev2 = base(rng);
            ev2.push(fadel);
            ev2.push(newer);
            let n2 = ev2.len();
            let f2 = SemFilter { authors: vec![author(0), author(1)], kinds: vec![10002, 5], ..SemFilter::empty() };
            v.push(Scenario { name: "foreign-addr-delete-vs-store-at-address".into(), events: ev2.clone(), filters: vec![f2.clone()], prepopulate: vec![0, 1, 2, 3], ops: vec![Opk::Store(n2 - 2), Opk::Store(n2 - 1)] });
            v.push(Scenario { name: "store-at-address-vs-foreign-addr-delete".into(), events: ev2, filters: vec![f2], prepopulate: vec![0, 1, 2, 3], ops: vec![Opk::Store(n2 - 1), Opk::Store(n2 - 2), Opk::Find(0)] });
        }
        // address deletion vs a store at that address
        let adel = mk(rng, 0, 5, 200, vec![vec!["a".into(), format!("10002:{}:", hex(&author(0)))]]);
        let newer = mk(rng, 0, 10002, 150, vec![]);
        let mut ev2 = base(rng);
        ev2.push(adel);
        ev2.push(newer);
        let n2 = ev2.len();
        v.push(Scenario { name: "addr-delete-vs-store-at-address".into(), events: ev2, filters: vec![f], prepopulate: vec![0, 1, 2, 3], ops: vec![Opk::Store(n2 - 2), Opk::Store(n2 - 1)] });
    }
    // S7: vanish vs store by that author, vanish vs query
    {
        let mut ev = base(rng);
        ev.push(mk(rng, 0, 1, 170, vec![]));
        let i = ev.len() - 1;
        let f = SemFilter { authors: vec![author(0)], ..SemFilter::empty() };
        v.push(Scenario { name: "vanish-vs-store".into(), events: ev, filters: vec![f.clone()], prepopulate: vec![0, 1, 2, 3], ops: vec![Opk::Vanish(author(0)), Opk::Store(i)] });
        // (vanish is a sequence of separate removals by design - C13 allows a subset of its targets to be
        // gone - so a query overlapping it is not required to see all-or-nothing; not part of the catalogue)
        let _ = f;
    }
    v
}

struct Live {
    ctx: Arc<Ctx>,
    dir: PathBuf,
    model: Model,
}

fn setup(sc: &Scenario, tag: &str) -> Option<Live> {
    let dir = workdir().join(format!("c14_{tag}"));
    let _ = std::fs::remove_dir_all(&dir);
    std::fs::create_dir_all(&dir).ok()?;
    // The in-process legs must not grow the event map: a growth that moves the mapping under a
    // concurrent reader is the recorded finding `mapping-moved-under-concurrent-reader`, and in this
    // process it would kill the monitor itself (debug builds grow in 2 KiB steps). The backing file is
    // therefore sized up front - the state a store is in after earlier growths - and growth under
    // concurrent readers is exercised only by the child-process growth scenarios, where a crash can
    // be classified against the journal of base moves.
    if is_debug_build() {
        if let Ok(f) = std::fs::File::create(dir.join("event.map")) {
            let _ = f.set_len(4096 * 1024);
        }
    }
    let store = Store::new(&dir, vec![]).ok()?;
    let mut model = Model::new();
    for i in sc.prepopulate.iter() {
        let e = pocket_types::OwnedEvent(sc.events[*i].bytes.clone());
        if store.store_event(&e).is_ok() {
            model.apply_store(&sc.events[*i]);
        }
    }
    let mut by_id = HashMap::new();
    for (i, e) in sc.events.iter().enumerate() {
        let _ = by_id.insert(e.sem.id, i);
    }
    let ctx = Ctx {
        store,
        bytes: sc.events.iter().map(|e| e.bytes.clone()).collect(),
        ids: sc.events.iter().map(|e| e.sem.id).collect(),
        times: sc.events.iter().map(|e| e.sem.created_at).collect(),
        by_id,
        filters: sc.filters.iter().map(|f| f.to_owned().unwrap()).collect(),
        clock: AtomicU64::new(1),
    };
    Some(Live { ctx: Arc::new(ctx), dir, model })
}

fn teardown(l: Live) {
    let Live { ctx, dir, .. } = l;
    if let Ok(c) = Arc::try_unwrap(ctx) {
        let _ = c.store.verif_close();
    }
    let _ = std::fs::remove_dir_all(dir);
}

/// Is the observed result of `op` possible in model state `m`? Applies the op's effect when it is.
fn step_model(m: &mut Model, sc: &Scenario, op: &Opk, res: &Res) -> bool {
    match (op, res) {
        (Opk::Store(i), Res::Store(out)) => {
            let ev = &sc.events[*i];
            let rs = m.reasons(&ev.sem);
            match out {
                Outcome::Ok(_) => {
                    if rs.must_fail() {
                        return false;
                    }
                    m.apply_store(ev);
                    true
                }
                Outcome::Err(c) => match c {
                    ErrClass::Duplicate => rs.dup,
                    ErrClass::Deleted => rs.del,
                    ErrClass::Replaced => rs.old || rs.eq,
                    ErrClass::InvalidDelete => rs.foreign,
                    ErrClass::Other(_) => false,
                },
            }
        }
        (Opk::Remove(id), Res::Unit(true)) => {
            m.apply_remove(id);
            true
        }
        (Opk::Vanish(pk), Res::Unit(true)) => {
            m.apply_vanish(pk);
            true
        }
        (Opk::Has(id), Res::Bool(b)) => *b == m.r.contains_key(id),
        (Opk::Get(id), Res::Got(g, ok)) => *ok && g.is_some() == m.r.contains_key(id) && g.map(|x| x == *id).unwrap_or(true),
        (Opk::Holder(a), Res::Got(g, ok)) => *ok && *g == m.holder(a).map(|e| e.sem.id),
        (Opk::Find(fi), Res::Ids(ids, ok, sorted)) => {
            if !*ok || !*sorted {
                return false;
            }
            let want: BTreeSet<Id32> = m.qualifying(&sc.filters[*fi], &|_| 0).iter().map(|e| e.sem.id).collect();
            let got: BTreeSet<Id32> = ids.iter().cloned().collect();
            got.len() == ids.len() && got == want
        }
        _ => false,
    }
}

fn permutations_of(n: usize) -> Vec<Vec<usize>> {
    permutations(n)
}

/// Search for a serial order, consistent with real time, that explains all results and the final state.
fn explain(sc: &Scenario, live: &Live, recs: &[Rec]) -> Result<Vec<usize>, String> {
    let n = recs.len();
    let ids: BTreeSet<Id32> = sc.events.iter().map(|e| e.sem.id).collect();
    let addrs: BTreeSet<AddrKey> = sc.events.iter().filter_map(|e| addr_of(&e.sem)).collect();
    let mut last_reason = String::new();
    'perm: for p in permutations_of(n) {
        // real time: if i returned before j was called, i must come first
        for a in 0..n {
            for b in a + 1..n {
                let (i, j) = (p[a], p[b]);
                if recs[j].ret < recs[i].call {
                    continue 'perm;
                }
            }
        }
        let mut m = live.model.clone();
        let mut ok = true;
        for &i in p.iter() {
            if !step_model(&mut m, sc, &recs[i].op, &recs[i].res) {
                ok = false;
                last_reason = format!("order {:?}: result of op {} ({} -> {:?}) impossible at that point", p, i, recs[i].op.kind(), recs[i].res);
                break;
            }
        }
        if !ok {
            continue;
        }
        let d = divergences(&live.ctx.store, &m, &ids, &addrs, &[]);
        if d.is_empty() {
            return Ok(p);
        }
        last_reason = format!("order {:?}: results fit but the final state differs: {}", p, d[0].1);
    }
    Err(last_reason)
}

fn run_scheduled(sc: &Scenario, target: Option<(String, u64)>, tag: &str) -> Option<(Live, Vec<Rec>, Vec<(&'static str, u64)>, bool, bool)> {
    let live = setup(sc, tag)?;
    let ctl = PauseCtl::new(target.clone());
    let recs: Arc<Mutex<Vec<Rec>>> = Arc::new(Mutex::new(vec![]));
    let mut handles = vec![];
    let done: Vec<Arc<AtomicBool>> = (0..sc.ops.len()).map(|_| Arc::new(AtomicBool::new(false))).collect();
    let spawn = |k: usize, with_ctl: Option<Arc<PauseCtl>>| {
        let ctx = live.ctx.clone();
        let op = sc.ops[k].clone();
        let recs = recs.clone();
        let d = done[k].clone();
        std::thread::spawn(move || {
            TL_CTL.with(|c| *c.borrow_mut() = with_ctl);
            let call = ctx.clock.fetch_add(1, Ordering::SeqCst);
            let res = exec(&ctx, &op);
            let ret = ctx.clock.fetch_add(1, Ordering::SeqCst);
            recs.lock().unwrap().push(Rec { thread: k, op, call, ret, res });
            d.store(true, Ordering::SeqCst);
            TL_CTL.with(|c| *c.borrow_mut() = None);
        })
    };
    handles.push(spawn(0, Some(ctl.clone())));
    // wait until A is parked or has finished
    let t0 = Instant::now();
    let mut parked = false;
    loop {
        if *ctl.state.lock().unwrap() == PState::Parked {
            parked = true;
            break;
        }
        if done[0].load(Ordering::SeqCst) {
            break;
        }
        if t0.elapsed() > Duration::from_secs(20) {
            break;
        }
        std::thread::sleep(Duration::from_micros(200));
    }
    // start the others; they either finish or block behind A
    let mut b_blocked = false;
    for k in 1..sc.ops.len() {
        handles.push(spawn(k, None));
        let t1 = Instant::now();
        while !done[k].load(Ordering::SeqCst) && t1.elapsed() < Duration::from_millis(if parked { 60 } else { 2000 }) {
            std::thread::sleep(Duration::from_micros(200));
        }
        if !done[k].load(Ordering::SeqCst) {
            b_blocked = true;
        }
    }
    // release A
    {
        let mut st = ctl.state.lock().unwrap();
        *st = PState::Released;
        ctl.cv.notify_all();
    }
    // bounded progress: everything must return
    let t2 = Instant::now();
    let mut hung = false;
    while !done.iter().all(|d| d.load(Ordering::SeqCst)) {
        if t2.elapsed() > Duration::from_secs(30) {
            hung = true;
            break;
        }
        std::thread::sleep(Duration::from_micros(500));
    }
    if hung {
        return Some((live, vec![], vec![], b_blocked, true));
    }
    for h in handles {
        let _ = h.join();
    }
    let census = ctl.census.lock().unwrap().clone();
    let mut r = recs.lock().unwrap().clone();
    r.sort_by_key(|x| x.thread);
    Some((live, r, census, b_blocked, false))
}

pub fn leg_schedules(rep: &mut Report, args: &Args) {
    install_handler();
    JITTER_US.store(0, Ordering::Relaxed);
    let mut rng = Rng::new(args.seed() ^ 0xC14);
    let scs = catalogue(&mut rng);
    let thorough = args.thorough();
    let only = args.get("scenario").map(|s| s.to_string());
    for (si, sc) in scs.iter().enumerate() {
        if let Some(o) = &only {
            if *o != sc.name {
                continue;
            }
        }
        // census of A's points (A runs unpaused, then the others)
        let (live, recs, census, _, hung) = match run_scheduled(sc, None, &format!("s{si}_census")) {
            Some(x) => x,
            None => {
                rep.inconclusive.push(format!("scenario {} could not be set up", sc.name));
                continue;
            }
        };
        if hung {
            hang_verdict(rep, &format!("scenario {} (census)", sc.name));
            return;
        }
        judge(rep, sc, &live, &recs, "census(no pause)", false);
        teardown(live);
        let mut points: Vec<(&'static str, u64)> = census;
        if !thorough {
            // first and last occurrence of every distinct point name
            let mut firsts: BTreeMap<&'static str, (u64, u64)> = BTreeMap::new();
            for (n, o) in points.iter() {
                let e = firsts.entry(n).or_insert((*o, *o));
                e.1 = *o;
            }
            points = firsts.iter().flat_map(|(n, (a, b))| if a == b { vec![(*n, *a)] } else { vec![(*n, *a), (*n, *b)] }).collect();
        }
        for (pi, (pname, pocc)) in points.iter().enumerate() {
            let (live, recs, _, blocked, hung) = match run_scheduled(sc, Some((pname.to_string(), *pocc)), &format!("s{si}_p{pi}")) {
                Some(x) => x,
                None => continue,
            };
            if hung {
                hang_verdict(rep, &format!("scenario {} paused at {pname}#{pocc}", sc.name));
                return;
            }
            let label = format!("{}#{}", pname, pocc);
            rep.count(if blocked { "schedules_where_B_blocked_behind_A" } else { "schedules_where_B_ran_while_A_was_parked" });
            judge(rep, sc, &live, &recs, &label, blocked);
            teardown(live);
        }
    }
}

fn judge(rep: &mut Report, sc: &Scenario, live: &Live, recs: &[Rec], point: &str, blocked: bool) {
    let mut h = vec![];
    h.extend_from_slice(sc.name.as_bytes());
    h.extend_from_slice(point.as_bytes());
    h.push(blocked as u8);
    rep.eval(fnv(&h), true);
    rep.count("schedules_explored");
    let desc = |recs: &[Rec]| recs.iter().map(|r| format!("T{} {}[{}..{}] -> {:?}", r.thread, r.op.kind(), r.call, r.ret, r.res)).collect::<Vec<_>>().join("; ");
    for r in recs.iter() {
        if let Res::Failed(why) = &r.res {
            rep.finding(
                &format!("operation-failed-under-concurrency:{}", r.op.kind()),
                &format!("scenario {} paused at {point}: {why}", sc.name),
                json!({"kind":"schedule","scenario":sc.name,"point":point}),
            );
            return;
        }
    }
    match explain(sc, live, recs) {
        Ok(order) => {
            rep.count(&format!("witness_order:{:?}", order));
            if rep.samples.len() < 3 {
                rep.sample(json!({"scenario":sc.name,"A_paused_at":point,"others_blocked":blocked,"observed":desc(recs),"serial_order":order}));
            }
        }
        Err(why) => {
            let kinds: Vec<&str> = sc.ops.iter().map(|o| o.kind()).collect();
            rep.finding(
                &format!("no-serial-order:{}@{}", kinds.join("+"), point.split('#').next().unwrap_or("")),
                &format!("scenario {} with A paused at {point} (others {}): no real-time-respecting serial order explains the results and the final state. {why}. Observed: {}", sc.name, if blocked { "blocked" } else { "ran" }, desc(recs)),
                json!({"kind":"schedule","scenario":sc.name,"point":point}),
            );
        }
    }
}

// ------------------------------------------------------------------------------------------ leg 3: hangs

/// A run made no progress for 30 s: ask gdb for the stacks; only an exhibited lock cycle is a verdict.
fn hang_verdict(rep: &mut Report, what: &str) {
    let pid = std::process::id();
    let out = std::process::Command::new("gdb")
        .args(["-p", &pid.to_string(), "-batch", "-ex", "set pagination off", "-ex", "thread apply all bt 30"])
        .output();
    let text = match out {
        Ok(o) => String::from_utf8_lossy(&o.stdout).to_string(),
        Err(e) => format!("gdb failed: {e}"),
    };
    classify_hang(rep, &text, what);
    rep.write(&std::env::args().collect::<Vec<_>>().windows(2).find(|w| w[0] == "--out").map(|w| w[1].clone()).unwrap_or("/dev/null".into()));
    // threads are stuck: leave without joining them
    std::process::exit(0);
}

pub fn classify_hang(rep: &mut Report, gdb_text: &str, what: &str) {
    // split per thread
    let mut writer_waiting = false;
    let mut reader_recursive = false;
    let mut excerpt = vec![];
    for th in gdb_text.split("\nThread ") {
        let resize = th.contains("MmapAppend::resize") || th.contains("mmap_append::MmapAppend::resize");
        let wlock = th.contains("RwLock::write") || th.contains("write_contended") || th.contains("rwlock") && th.contains("write");
        let deref = th.contains("as core::ops::deref::Deref>::deref") && th.contains("mmap_append") || th.contains("MmapAppend::get_end") || th.contains("get_end");
        let rlock = th.contains("read_contended") || th.contains("RwLock::read") || th.contains("rwlock") && th.contains("read");
        if resize && wlock {
            writer_waiting = true;
            excerpt.push(th.lines().filter(|l| l.contains("mmap_append") || l.contains("rwlock") || l.contains("event_store")).take(6).collect::<Vec<_>>().join(" / "));
        }
        if deref && rlock && th.contains("get_end") {
            reader_recursive = true;
            if excerpt.len() < 3 {
                excerpt.push(th.lines().filter(|l| l.contains("mmap_append") || l.contains("rwlock") || l.contains("get_event_by_offset")).take(6).collect::<Vec<_>>().join(" / "));
            }
        }
    }
    // The general form of an exhibited cycle: gdb stops all threads at one instant; if every thread of the process is
    // either waiting to ACQUIRE a lock from inside pocket-db / mmap-append / LMDB (rwlock read or write, mutex, the
    // LMDB writer mutex) or idle in the harness (join, sleep, park, waiting for gdb itself), then every holder of every
    // awaited lock is itself among the waiters - nobody is left who could release anything. A thread doing anything
    // else (running, in I/O) makes the picture inconclusive.
    let mut lock_waiters: Vec<String> = vec![];
    let mut others = 0usize;
    let mut kinds = (false, false);
    for th in gdb_text.split("\nThread ").skip(1) {
        let frames: Vec<&str> = th.lines().filter(|l| l.starts_with('#')).collect();
        let has = |pat: &str| frames.iter().any(|l| l.contains(pat));
        let in_lib = |l: &&str| l.contains("pocket_db::") || l.contains("mmap_append::") || l.contains("heed::") || l.contains("mdb_");
        let waiting = has("futex_wait") || has("__lll_lock_wait") || has("pthread_mutex_lock") || has("__futex_abstimed_wait");
        let acquiring = has("RwLock::read") || has("RwLock::write") || has("read_contended") || has("write_contended") || has("Mutex::lock") || has("lock_contended") || has("mdb_txn_begin") || has("pthread_mutex_lock");
        let idle = has("JoinHandle") || has("pthread_join") || has("__pthread_clockjoin") || has("thread::sleep") || has("nanosleep") || has("Thread::park") || has("thread::park") || has("hang_verdict") || has("Command::output") || has("Barrier::wait") || has("Condvar::wait");
        // a thread that is inside the library but parked by the harness itself (at a verif point) is neither: it may
        // hold a lock and will be released by the scheduler
        let idle = idle && !frames.iter().any(|l| in_lib(l) && !l.contains("verif::point"));
        if waiting && acquiring && frames.iter().any(in_lib) && !has("pvmon::conc::on_point") {
            kinds.0 |= has("write_contended") || has("RwLock::write") || has("mdb_txn_begin");
            kinds.1 |= has("read_contended") || has("RwLock::read");
            let inner: Vec<String> = frames.iter().filter(|l| in_lib(l)).take(2).map(|l| l.split(" in ").last().unwrap_or(l).split(" (").next().unwrap_or("").trim_start_matches(|c: char| c == '#' || c.is_ascii_digit() || c == ' ').to_string()).collect();
            lock_waiters.push(inner.join(" <- "));
        } else if !idle {
            others += 1;
        }
    }
    lock_waiters.sort();
    let distinct: BTreeSet<String> = lock_waiters.iter().cloned().collect();
    if writer_waiting && reader_recursive {
        rep.finding(
            "deadlock:resize-write-lock-vs-recursive-read-lock",
            &format!("{what}: no progress for 30 s; gdb shows a writer in MmapAppend::resize waiting for the map's write lock while a reader inside MmapAppend::deref waits in get_end for a second read lock behind it. {}", excerpt.join(" || ")),
            json!({"kind":"hang","what":what}),
        );
    } else if others == 0 && lock_waiters.len() >= 2 {
        rep.finding(
            "deadlock:every-thread-waits-to-acquire-a-lock",
            &format!("{what}: no progress for 30 s; gdb shows all {} non-idle threads waiting to acquire a lock inside the library (rwlock for writing: {}, for reading: {}) and no thread that could release one: {}", lock_waiters.len(), kinds.0, kinds.1, distinct.iter().cloned().collect::<Vec<_>>().join(" || ")),
            json!({"kind":"hang","what":what}),
        );
    } else {
        rep.inconclusive.push(format!("{what}: no progress for 30 s but gdb exhibited no lock cycle (writer_waiting={writer_waiting}, reader_recursive={reader_recursive}, threads waiting for a lock inside the library: {}, threads doing something else: {others})", lock_waiters.len()));
        let _ = rep.extra.insert("gdb_excerpt".into(), json!(gdb_text.lines().take(120).collect::<Vec<_>>()));
    }
}

// ------------------------------------------------------------------------------------------ leg 2b: replacement storm

/// One writer replaces the holder of a replaceable and of a parameterised address thousands of times while reader
/// threads hammer every lookup that can see those addresses. Online monitor: each address is occupied in every
/// committed state, by exactly one event, and the holders' timestamps increase along the commit order - so a lookup
/// never answers "nothing there", never returns two events of one address, and never returns a holder older than
/// the newest one whose store call HAD ALREADY RETURNED when the lookup began (real time). This opens windows that
/// no pause point covers (e.g. between two snapshots taken inside one lookup).
///
/// Deliberately NOT demanded: that successive lookups of one thread never go back in time. LMDB does not provide
/// that while a commit is in progress (a read transaction can see commit N+1 and the next one commit N; `pvmon
/// lmdb-probe` shows it on a bare LMDB table), and the property only asks for "the state after some prefix".
pub fn leg_storm(rep: &mut Report, args: &Args) {
    let rounds = if args.thorough() { 40 } else { 3 };
    let replacements = if args.thorough() { 4000u64 } else { 1500 };
    for round in 0..rounds {
        let dir = workdir().join(format!("c14_storm{round}"));
        let _ = std::fs::remove_dir_all(&dir);
        if std::fs::create_dir_all(&dir).is_err() {
            continue;
        }
        // no growth of the map during the storm (see setup())
        if let Ok(f) = std::fs::File::create(dir.join("event.map")) {
            let _ = f.set_len(16 * 4096 * 1024);
        }
        let store = match Store::new(&dir, vec![]) {
            Ok(s) => Arc::new(s),
            Err(_) => continue,
        };
        let mut rng = Rng::new(args.seed() ^ 0x5707 ^ (round as u64) << 16);
        let a = author(0);
        let addr_r = AddrKey { kind: 10002, author: a, d: vec![] };
        let addr_p = AddrKey { kind: 30023, author: a, d: b"slot".to_vec() };
        let first_r = mk(&mut rng, 0, 10002, 1000, vec![]);
        let first_p = mk(&mut rng, 0, 30023, 1000, vec![vec!["d".into(), "slot".into()]]);
        let bystander = mk(&mut rng, 1, 1, 1000, vec![vec!["t".into(), "x".into()]]);
        for e in [&first_r, &first_p, &bystander] {
            let _ = store.store_event(&pocket_types::OwnedEvent(e.bytes.clone()));
        }
        let stop = Arc::new(AtomicBool::new(false));
        let bad: Arc<Mutex<Vec<String>>> = Arc::new(Mutex::new(vec![]));
        let lookups = Arc::new(AtomicU64::new(0));
        let went_back = Arc::new(AtomicU64::new(0));
        // timestamp of the newest holder whose store call has returned, per address
        let returned_r = Arc::new(AtomicU64::new(1000));
        let returned_p = Arc::new(AtomicU64::new(1000));
        let mut readers = vec![];
        for t in 0..6usize {
            let store = store.clone();
            let stop = stop.clone();
            let bad = bad.clone();
            let lookups = lookups.clone();
            let went_back = went_back.clone();
            let (returned_r, returned_p) = (returned_r.clone(), returned_p.clone());
            let (ar, ap) = (to_addr(&addr_r), to_addr(&addr_p));
            let f_r = SemFilter { authors: vec![a], kinds: vec![10002], ..SemFilter::empty() }.to_owned().unwrap();
            let f_p = SemFilter { authors: vec![a], kinds: vec![30023], tags: vec![("d".into(), vec!["slot".into()])], ..SemFilter::empty() }.to_owned().unwrap();
            let f_a = SemFilter { authors: vec![a], ..SemFilter::empty() }.to_owned().unwrap();
            readers.push(std::thread::spawn(move || {
                let mut seen_r = 0u64;
                let mut seen_p = 0u64;
                let note = |what: String| {
                    let mut b = bad.lock().unwrap();
                    if b.len() < 5 {
                        b.push(what);
                    }
                };
                let mut judge = |nm: &str, ts: u64, floor: u64, seen: &mut u64| {
                    if ts < floor {
                        note(format!("{nm} returned the holder of time {ts} although the store of the holder of time {floor} had returned before the lookup began"));
                    }
                    if ts < *seen {
                        let _ = went_back.fetch_add(1, Ordering::Relaxed); // tolerated, see above
                    }
                    *seen = (*seen).max(ts);
                };
                let mut k = 0u64;
                while !stop.load(Ordering::Relaxed) {
                    k += 1;
                    lookups.fetch_add(1, Ordering::Relaxed);
                    let (floor_r, floor_p) = (returned_r.load(Ordering::SeqCst), returned_p.load(Ordering::SeqCst));
                    match (k + t as u64) % 5 {
                        0 => match store.find_replaceable_event(ar.author, ar.kind) {
                            Ok(Some(e)) => judge("find_replaceable_event", e.created_at().as_u64(), floor_r, &mut seen_r),
                            Ok(None) => note("find_replaceable_event: the occupied address read as empty".into()),
                            Err(e) => note(format!("find_replaceable_event failed: {e}")),
                        },
                        1 => match store.find_parameterized_replaceable_event(&ap) {
                            Ok(Some(e)) => judge("find_parameterized_replaceable_event", e.created_at().as_u64(), floor_p, &mut seen_p),
                            Ok(None) => note("find_parameterized_replaceable_event: the occupied address read as empty".into()),
                            Err(e) => note(format!("find_parameterized_replaceable_event failed: {e}")),
                        },
                        2 | 3 => {
                            let repl = (k + t as u64) % 5 == 2;
                            let (f, nm) = if repl { (&f_r, "author+kind query of the replaceable address") } else { (&f_p, "author+kind+#d query of the parameterised address") };
                            match store.find_events(f, true, 0, 0, |_| ScreenResult::Match) {
                                Ok((evs, _)) => {
                                    if evs.len() != 1 {
                                        note(format!("{nm} returned {} events (exactly one event holds the address in every committed state)", evs.len()));
                                    } else if repl {
                                        judge(nm, evs[0].created_at().as_u64(), floor_r, &mut seen_r);
                                    } else {
                                        judge(nm, evs[0].created_at().as_u64(), floor_p, &mut seen_p);
                                    }
                                }
                                Err(e) => note(format!("{nm} failed: {e}")),
                            }
                        }
                        _ => match store.find_events(&f_a, true, 0, 0, |_| ScreenResult::Match) {
                            Ok((evs, _)) => {
                                let nr = evs.iter().filter(|e| e.kind().as_u16() == 10002).count();
                                let np = evs.iter().filter(|e| e.kind().as_u16() == 30023).count();
                                if nr != 1 || np != 1 {
                                    note(format!("author query saw {nr} events at the replaceable and {np} at the parameterised address (exactly one each in every committed state)"));
                                }
                            }
                            Err(e) => note(format!("author query failed: {e}")),
                        },
                    }
                }
            }));
        }
        let mut stored = 0u64;
        for i in 0..replacements {
            let repl = i % 2 == 0;
            let e = if repl { mk(&mut rng, 0, 10002, 1001 + i, vec![]) } else { mk(&mut rng, 0, 30023, 1001 + i, vec![vec!["d".into(), "slot".into()]]) };
            if store.store_event(&pocket_types::OwnedEvent(e.bytes.clone())).is_ok() {
                stored += 1;
                if repl {
                    returned_r.store(1001 + i, Ordering::SeqCst);
                } else {
                    returned_p.store(1001 + i, Ordering::SeqCst);
                }
            }
        }
        stop.store(true, Ordering::Relaxed);
        for h in readers {
            let _ = h.join();
        }
        rep.eval(fnv(format!("storm{round}{}", args.seed()).as_bytes()), true);
        rep.count("storm_rounds");
        rep.count_n("storm_replacements", stored);
        rep.count_n("storm_concurrent_lookups", lookups.load(Ordering::Relaxed));
        rep.count_n("storm_lookups_older_than_an_earlier_one_of_the_same_thread(tolerated: commit in progress)", went_back.load(Ordering::Relaxed));
        let b = bad.lock().unwrap();
        if !b.is_empty() {
            rep.finding("storm:lookup-saw-no-committed-state", &format!("round {round}, {} replacements against {} concurrent lookups: {}", stored, lookups.load(Ordering::Relaxed), b.join(" | ")), json!({"kind":"storm","round":round}));
        }
        drop(b);
        if let Ok(s) = Arc::try_unwrap(store) {
            let _ = s.verif_close();
        }
        let _ = std::fs::remove_dir_all(&dir);
        if rep.has_finding("storm:lookup-saw-no-committed-state") {
            break;
        }
    }
}

// ------------------------------------------------------------------------------------------ leg 2: stress

pub fn leg_stress(rep: &mut Report, args: &Args) {
    install_handler();
    let rounds = if args.thorough() { 600 } else { 10 };
    let nthreads = 8usize;
    for round in 0..rounds {
        let mut rng = Rng::new(args.seed() ^ 0x57E55 ^ (round as u64) << 20);
        JITTER_US.store(*rng.pick(&[0u64, 20, 100, 400]), Ordering::Relaxed);
        // pool: few addresses, many collisions
        let mut events: Vec<Rc<Ev>> = vec![];
        for i in 0..10u64 {
            events.push(mk(&mut rng, (i % 2) as u8, 1, 100 + i, vec![vec!["t".into(), (if i % 2 == 0 { "even" } else { "odd" }).to_string()]]));
        }
        for t in [100u64, 110, 120, 120, 130] {
            events.push(mk(&mut rng, 0, 10002, t, vec![]));
            events.push(mk(&mut rng, 1, 30023, t, vec![vec!["d".into(), "x".into()], vec!["t".into(), "even".into()]]));
        }
        // deletion requests (own) for two plain events and one address
        let d1 = mk(&mut rng, 0, 5, 300, vec![vec!["e".into(), hex(&events[0].sem.id)], vec!["e".into(), hex(&events[2].sem.id)]]);
        let d2 = mk(&mut rng, 1, 5, 115, vec![vec!["a".into(), format!("30023:{}:x", hex(&author(1)))]]);
        // a request naming only another author's event, and one mixing an own target with a foreign one: whether they
        // are refused depends on whether the foreign target is stored at their commit position
        let d3 = mk(&mut rng, 1, 5, 310, vec![vec!["e".into(), hex(&events[4].sem.id)]]);
        let d4 = mk(&mut rng, 0, 5, 320, vec![vec!["e".into(), hex(&events[6].sem.id)], vec!["e".into(), hex(&events[1].sem.id)]]);
        events.push(d1);
        events.push(d2);
        events.push(d3);
        events.push(d4);
        let filters = vec![
            SemFilter { tags: vec![("t".into(), vec!["even".into()])], ..SemFilter::empty() },
            SemFilter { authors: vec![author(0)], kinds: vec![10002], ..SemFilter::empty() },
            SemFilter { authors: vec![author(1)], ..SemFilter::empty() },
            SemFilter { authors: vec![author(0), author(1)], kinds: vec![1, 5], ..SemFilter::empty() },
        ];
        let sc = Scenario { name: format!("stress-{round}"), events: events.clone(), filters: filters.clone(), prepopulate: vec![], ops: vec![] };
        let live = match setup(&sc, &format!("stress{round}")) {
            Some(l) => l,
            None => continue,
        };
        // per-thread scripts: every event is submitted by several threads; reads in between
        let mut scripts: Vec<Vec<Opk>> = vec![vec![]; nthreads];
        for (t, script) in scripts.iter_mut().enumerate() {
            let mut order: Vec<usize> = (0..events.len()).collect();
            rng.shuffle(&mut order);
            for (k, i) in order.iter().enumerate() {
                if (i + t) % 2 == 0 || k % 3 == 0 {
                    script.push(Opk::Store(*i));
                }
                match rng.below(5) {
                    0 => script.push(Opk::Find(rng.usize_below(filters.len()))),
                    1 => script.push(Opk::Get(events[rng.usize_below(events.len())].sem.id)),
                    2 => script.push(Opk::Has(events[rng.usize_below(events.len())].sem.id)),
                    3 => {
                        // the address of some replaceable / parameterised event of the pool
                        let with_addr: Vec<AddrKey> = events.iter().filter_map(|e| addr_of(&e.sem)).collect();
                        if !with_addr.is_empty() {
                            script.push(Opk::Holder(rng.pick(&with_addr).clone()));
                        }
                    }
                    _ => {}
                }
            }
        }
        // the very same event simultaneously from all threads, first thing after the barrier
        let hot = rng.usize_below(10);
        for script in scripts.iter_mut() {
            script.insert(0, Opk::Store(hot));
        }
        let barrier = Arc::new(Barrier::new(nthreads));
        let recs: Arc<Mutex<Vec<Rec>>> = Arc::new(Mutex::new(vec![]));
        let finished = Arc::new(AtomicU64::new(0));
        let mut handles = vec![];
        for (t, script) in scripts.into_iter().enumerate() {
            let ctx = live.ctx.clone();
            let b = barrier.clone();
            let recs = recs.clone();
            let fin = finished.clone();
            let rs = args.seed() ^ (t as u64) << 8 ^ round as u64;
            handles.push(std::thread::spawn(move || {
                TL_RNG.with(|r| *r.borrow_mut() = rs | 1);
                let mut mine = vec![];
                let _ = b.wait();
                for op in script {
                    let call = ctx.clock.fetch_add(1, Ordering::SeqCst);
                    let res = exec(&ctx, &op);
                    let ret = ctx.clock.fetch_add(1, Ordering::SeqCst);
                    mine.push(Rec { thread: t, op, call, ret, res });
                }
                recs.lock().unwrap().extend(mine);
                let _ = fin.fetch_add(1, Ordering::SeqCst);
            }));
        }
        let t0 = Instant::now();
        while finished.load(Ordering::SeqCst) < nthreads as u64 {
            if t0.elapsed() > Duration::from_secs(60) {
                hang_verdict(rep, &format!("stress round {round}"));
                return;
            }
            std::thread::sleep(Duration::from_millis(1));
        }
        for h in handles {
            let _ = h.join();
        }
        let recs = recs.lock().unwrap().clone();
        check_stress(rep, &sc, &live, &recs, round);
        teardown(live);
    }
    JITTER_US.store(0, Ordering::Relaxed);
}

fn check_stress(rep: &mut Report, sc: &Scenario, live: &Live, recs: &[Rec], round: usize) {
    let mut h: Vec<u8> = vec![];
    let rp = json!({"kind":"stress","round":round});
    // successful stores in offset (= commit) order
    let mut oks: Vec<(u64, &Rec)> = vec![];
    for r in recs.iter() {
        match &r.res {
            Res::Store(Outcome::Ok(off)) => oks.push((*off, r)),
            Res::Failed(why) => {
                rep.finding(&format!("operation-failed-under-concurrency:{}", r.op.kind()), why, rp.clone());
                return;
            }
            _ => {}
        }
    }
    oks.sort_by_key(|x| x.0);
    for w in oks.windows(2) {
        if w[0].0 == w[1].0 {
            rep.finding("two-stores-returned-the-same-offset", &format!("offset {}", w[0].0), rp.clone());
            return;
        }
    }
    // model states S_0 .. S_n
    let mut states: Vec<Model> = vec![live.model.clone()];
    for (pos, (_, r)) in oks.iter().enumerate() {
        let i = match r.op {
            Opk::Store(i) => i,
            _ => unreachable!(),
        };
        let mut m = states[pos].clone();
        let rs = m.reasons(&sc.events[i].sem);
        if rs.must_fail() {
            let what = if rs.dup { "duplicate-accepted-twice" } else if rs.old { "older-than-holder-accepted" } else if rs.del { "deleted-event-accepted" } else { "foreign-delete-accepted" };
            rep.finding(
                &format!("stress:{what}"),
                &format!("round {round}: store of event #{i} ({}) succeeded at commit position {pos} (offset order) although the state there forbids it: {}", sc.events[i].short(), rs.describe()),
                rp.clone(),
            );
            return;
        }
        m.apply_store(&sc.events[i]);
        states.push(m);
        h.extend_from_slice(&(i as u32).to_le_bytes());
    }
    let n = oks.len();
    // position bounds for an operation with window [call, ret]
    let bounds = |call: u64, ret: u64| -> (usize, usize) {
        let mut lo = 0usize;
        let mut hi = 0usize;
        for (pos, (_, r)) in oks.iter().enumerate() {
            if r.ret < call {
                lo = lo.max(pos + 1);
            }
            if r.call < ret {
                hi = hi.max(pos + 1);
            }
        }
        (lo, hi.max(lo))
    };
    // exactly one of N submissions of the same event succeeds
    let mut per_event: BTreeMap<usize, (u64, u64)> = BTreeMap::new();
    for r in recs.iter() {
        if let (Opk::Store(i), Res::Store(o)) = (&r.op, &r.res) {
            let e = per_event.entry(*i).or_insert((0, 0));
            e.0 += 1;
            if o.is_ok() {
                e.1 += 1;
            }
        }
    }
    for (i, (subs, ok)) in per_event.iter() {
        // an event with a rival of equal created_at at its address can legitimately be displaced by
        // the rival and accepted again later; everything else can succeed at most once
        let e = &sc.events[*i].sem;
        let has_tie = addr_of(e).map(|a| sc.events.iter().any(|o| o.sem.id != e.id && o.sem.created_at == e.created_at && addr_of(&o.sem).as_ref() == Some(&a))).unwrap_or(false);
        if *ok > 1 && !has_tie {
            rep.finding("stress:same-event-stored-more-than-once", &format!("round {round}: event #{i} submitted {subs} times, {ok} succeeded"), rp.clone());
            return;
        }
        rep.count_n("simultaneous_submissions", *subs);
    }
    // every failed store is justified somewhere inside its window; every read equals some state inside its window
    for r in recs.iter() {
        let (lo, hi) = bounds(r.call, r.ret);
        let mut ok = false;
        match (&r.op, &r.res) {
            (Opk::Store(_), Res::Store(Outcome::Ok(_))) => ok = true,
            (Opk::Store(_), Res::Store(Outcome::Err(_))) | (Opk::Has(_), _) | (Opk::Get(_), _) | (Opk::Find(_), _) | (Opk::Holder(_), _) => {
                for k in lo..=hi.min(n) {
                    let mut m = states[k].clone();
                    if step_model(&mut m, sc, &r.op, &r.res) {
                        ok = true;
                        break;
                    }
                }
                rep.count(if hi > lo { "ops_with_several_candidate_states" } else { "ops_with_one_candidate_state" });
            }
            _ => ok = true,
        }
        if !ok {
            let what = match (&r.op, &r.res) {
                (Opk::Store(_), _) => "store-error-not-justified-in-its-window".to_string(),
                (Opk::Find(_), Res::Ids(_, false, _)) => "query-returned-wrong-bytes".to_string(),
                (Opk::Find(_), Res::Ids(_, _, false)) => "query-not-newest-first".to_string(),
                (o, _) => format!("{}-matches-no-committed-state-in-its-window", o.kind()),
            };
            rep.finding(
                &format!("stress:{what}"),
                &format!("round {round}: T{} {} [{}..{}] -> {:?}; candidate commit positions {lo}..={hi} of {n}", r.thread, r.op.kind(), r.call, r.ret, r.res),
                rp.clone(),
            );
            return;
        }
    }
    // final state
    let ids: BTreeSet<Id32> = sc.events.iter().map(|e| e.sem.id).collect();
    let addrs: BTreeSet<AddrKey> = sc.events.iter().filter_map(|e| addr_of(&e.sem)).collect();
    let d = divergences(&live.ctx.store, &states[n], &ids, &addrs, &[]);
    if !d.is_empty() {
        rep.finding("stress:final-state-differs-from-serial-replay", &format!("round {round}: {} (and {} more)", d[0].1, d.len() - 1), rp);
        return;
    }
    rep.eval(fnv(&h), true);
    rep.count_n("stress_operations", recs.len() as u64);
    rep.count_n("stress_successful_stores", n as u64);
    rep.count("stress_rounds");
    if round == 0 {
        rep.sample(json!({"stress_round":0,"threads":8,"operations":recs.len(),"successful_stores":n,
            "commit_order(event#)": oks.iter().map(|(_, r)| match r.op { Opk::Store(i) => i, _ => 0 }).collect::<Vec<_>>()}));
    }
}

// ------------------------------------------------------------------------------------------ growth scenarios (child processes)

/// child: writers keep growing the file while readers read. mode g1: readers only take addresses
/// (get_event_by_offset / get_event_by_id / has_event, never reading through the result);
/// g2: readers run find_events / get_event_by_id and compare bytes.
pub fn growth_child(args: &Args) {
    let mode = args.get_str("mode", "g1");
    let dir = PathBuf::from(args.get_str("dir", "/tmp/c14g"));
    let nstores = args.get_u64("stores", 400) as usize;
    let nreaders = args.get_u64("readers", 8) as usize;
    let jpath = std::ffi::CString::new(args.get_str("journal", "/dev/null")).unwrap();
    let jfd = unsafe { libc::open(jpath.as_ptr(), libc::O_WRONLY | libc::O_CREAT | libc::O_APPEND, 0o644) };
    let jw = |s: String| unsafe {
        let _ = libc::write(jfd, s.as_ptr() as *const libc::c_void, s.len());
    };
    let _ = std::fs::create_dir_all(&dir);
    // journal the beginning and the end of every growth of the map from inside the store call,
    // so that a crash can be placed relative to it
    pocket_db::verif::set_point_handler(Some(Arc::new(move |name: &'static str| {
        let line: &str = match name {
            "es.store.out_of_space" => "GROWING\n",
            "es.store.after_resize" => "RESIZED\n",
            _ => return,
        };
        unsafe {
            let _ = libc::write(jfd, line.as_ptr() as *const libc::c_void, line.len());
        }
    })));
    let store = Arc::new(Store::new(&dir, vec![]).expect("open"));
    let mut rng = Rng::new(args.seed());
    if mode == "g3" {
        // writers only: several threads store concurrently (plain, ephemeral, replaceable events of many sizes) while
        // the 2 KiB debug map grows every few events. Nobody holds a reference across a store, so nothing here
        // touches the recorded finding: afterwards every event a successful store returned an offset for must read
        // back, byte for byte, by that offset, and by id unless it is ephemeral or was replaced.
        let nthreads = 6usize;
        let per = nstores / nthreads;
        let mut plans: Vec<Vec<Rc<Ev>>> = vec![];
        for t in 0..nthreads {
            let mut v = vec![];
            for i in 0..per {
                let kind: u16 = match (i + t) % 5 { 0 => 20001, 1 => 25000, 2 => 1, 3 => 7, _ => 1 };
                let clen = [0usize, 30, 200, 700, 1500, 2600][(i * 7 + t) % 6];
                let e = Ev::new(SemEvent { id: rng.arr32(), pubkey: author(t as u8), sig: [0x51; 64], kind, created_at: 1000 + i as u64, tags: vec![vec!["t".into(), "g3".into()]], content: "w".repeat(clen) }).unwrap();
                v.push(e);
            }
            plans.push(v);
        }
        let results: Arc<Mutex<Vec<(u64, Vec<u8>, Id32, bool)>>> = Arc::new(Mutex::new(vec![]));
        let mut hs = vec![];
        for plan in plans.into_iter() {
            let store = store.clone();
            let results = results.clone();
            let sendable: Vec<(Vec<u8>, Id32, bool)> = plan.iter().map(|e| (e.bytes.clone(), e.sem.id, is_ephemeral(e.sem.kind))).collect();
            hs.push(std::thread::spawn(move || {
                for (b, id, eph) in sendable {
                    if let Ok(off) = store.store_event(&pocket_types::OwnedEvent(b.clone())) {
                        results.lock().unwrap().push((off, b, id, eph));
                    }
                }
            }));
        }
        for h in hs {
            let _ = h.join();
        }
        let res = results.lock().unwrap();
        jw(format!("S {} stores returned an offset\n", res.len()));
        let mut seen_off = BTreeSet::new();
        for (off, b, id, eph) in res.iter() {
            if !seen_off.insert(*off) {
                eprintln!("WRONG-BYTES g3: offset {off} returned twice");
                std::process::exit(7);
            }
            match store.get_event_by_offset(*off) {
                Ok(e) if e.as_bytes() == b.as_slice() => {}
                Ok(_) => {
                    eprintln!("WRONG-BYTES g3: offset {off} reads back different bytes");
                    std::process::exit(7);
                }
                Err(e) => {
                    eprintln!("WRONG-BYTES g3: offset {off} unreadable: {e}");
                    std::process::exit(7);
                }
            }
            if !*eph {
                match store.get_event_by_id(Id::from_bytes(*id)) {
                    Ok(Some(e)) if e.as_bytes() == b.as_slice() => {}
                    other => {
                        eprintln!("WRONG-BYTES g3: lookup by id after concurrent stores: {:?}", other.map(|o| o.map(|e| e.len())));
                        std::process::exit(7);
                    }
                }
            }
        }
        jw("DONE\n".to_string());
        std::process::exit(0);
    }
    let events: Vec<Rc<Ev>> = (0..nstores).map(|i| mk(&mut rng, (i % 3) as u8, 1, 1000 + i as u64, vec![vec!["t".into(), "g".into()]])).collect();
    let bytes: Arc<Vec<Vec<u8>>> = Arc::new(events.iter().map(|e| e.bytes.clone()).collect());
    let idsv: Arc<Vec<Id32>> = Arc::new(events.iter().map(|e| e.sem.id).collect());
    let offsets: Arc<Mutex<Vec<(u64, usize)>>> = Arc::new(Mutex::new(vec![]));
    let stop = Arc::new(AtomicBool::new(false));
    let progress = Arc::new(AtomicU64::new(0));
    let filter = SemFilter { tags: vec![("t".into(), vec!["g".into()])], limit: Some(20), ..SemFilter::empty() }.to_owned().unwrap();
    let filter = Arc::new(filter);
    let mut hs = vec![];
    for t in 0..nreaders {
        let store = store.clone();
        let offsets = offsets.clone();
        let stop = stop.clone();
        let bytes = bytes.clone();
        let idsv = idsv.clone();
        let mode = mode.clone();
        let filter = filter.clone();
        let progress = progress.clone();
        hs.push(std::thread::spawn(move || {
            let mut x: u64 = 0x1234 + t as u64;
            let mut sink = 0usize;
            while !stop.load(Ordering::Relaxed) {
                x = x.wrapping_mul(6364136223846793005).wrapping_add(1442695040888963407);
                let known: Option<(u64, usize)> = {
                    let o = offsets.lock().unwrap();
                    if o.is_empty() { None } else { Some(o[(x >> 33) as usize % o.len()]) }
                };
                if let Some((off, idx)) = known {
                    if mode == "g1" {
                        // addresses only
                        if let Ok(e) = store.get_event_by_offset(off) {
                            sink ^= e as *const Event as *const u8 as usize;
                        }
                        let _ = store.has_event(Id::from_bytes(idsv[idx]));
                    } else {
                        match store.get_event_by_id(Id::from_bytes(idsv[idx])) {
                            Ok(Some(e)) => {
                                if e.as_bytes() != bytes[idx].as_slice() {
                                    eprintln!("WRONG-BYTES get_event_by_id");
                                    std::process::exit(7);
                                }
                            }
                            _ => {}
                        }
                        if let Ok((evs, _)) = store.find_events(&filter, true, 0, 0, |_| ScreenResult::Match) {
                            for e in evs {
                                sink ^= e.as_bytes().iter().map(|b| *b as usize).sum::<usize>();
                            }
                        }
                    }
                }
                let _ = progress.fetch_add(1, Ordering::Relaxed);
            }
            sink
        }));
    }
    // writer (this thread): journals file length and base address after every store
    let mut last_base = 0usize;
    for (i, b) in bytes.iter().enumerate() {
        let e = pocket_types::OwnedEvent(b.clone());
        match store.store_event(&e) {
            Ok(off) => {
                offsets.lock().unwrap().push((off, i));
                let base = store.get_event_by_offset(8).map(|e| e as *const Event as *const u8 as usize).unwrap_or(0);
                let len = std::fs::metadata(dir.join("event.map")).map(|m| m.len()).unwrap_or(0);
                if base != last_base {
                    jw(format!("S {i} len {len} base {base:x} MOVED\n"));
                    last_base = base;
                } else if i % 16 == 0 {
                    jw(format!("S {i} len {len} base {base:x}\n"));
                }
            }
            Err(e) => {
                jw(format!("STORE-ERROR {i} {e}\n"));
            }
        }
        let _ = progress.fetch_add(1, Ordering::Relaxed);
    }
    stop.store(true, Ordering::Relaxed);
    for h in hs {
        let _ = h.join();
    }
    jw("DONE\n".to_string());
    std::process::exit(0);
}

pub fn leg_growth(rep: &mut Report, args: &Args) {
    let exe = std::env::current_exe().unwrap();
    let runs = if args.thorough() { 6 } else { 2 };
    for mode in ["g1", "g2", "g3"] {
        for run in 0..runs {
            let dir = workdir().join(format!("c14{mode}_{run}"));
            let _ = std::fs::remove_dir_all(&dir);
            let journal = workdir().join(format!("c14{mode}_{run}.journal"));
            let _ = std::fs::remove_file(&journal);
            let mut ch = std::process::Command::new(&exe)
                .args(["c14-growth-child", "--mode", mode, "--dir", dir.to_str().unwrap(), "--journal", journal.to_str().unwrap(), "--seed", &(args.seed() + run as u64).to_string(),
                       "--stores", if args.thorough() { "3000" } else { "600" }, "--readers", "12"])
                .stdout(std::process::Stdio::null())
                .stderr(std::process::Stdio::piped())
                .spawn()
                .expect("spawn growth child");
            // watch progress through the journal size
            let mut last_size = 0u64;
            let mut last_change = Instant::now();
            let mut status = None;
            let mut hung = false;
            loop {
                if let Ok(Some(st)) = ch.try_wait() {
                    status = Some(st);
                    break;
                }
                let sz = std::fs::metadata(&journal).map(|m| m.len()).unwrap_or(0);
                if sz != last_size {
                    last_size = sz;
                    last_change = Instant::now();
                }
                if last_change.elapsed() > Duration::from_secs(20) {
                    hung = true;
                    break;
                }
                std::thread::sleep(Duration::from_millis(20));
            }
            let jtxt = std::fs::read_to_string(&journal).unwrap_or_default();
            // base moves the writer saw, plus a growth that was in flight (or just finished without
            // the writer having journaled its next store) when the child died
            let growth_in_flight = {
                let last_grow = jtxt.rfind("GROWING");
                let last_store = jtxt.rfind("\nS ");
                match (last_grow, last_store) {
                    (Some(g), Some(s)) => g > s,
                    (Some(_), None) => true,
                    _ => false,
                }
            };
            let moves = jtxt.matches("MOVED").count().saturating_sub(1) + growth_in_flight as usize;
            rep.count_n(&format!("growth_{mode}_growths_observed"), jtxt.matches("RESIZED").count() as u64);
            let stores_done = jtxt.lines().filter(|l| l.starts_with("S ")).count();
            rep.eval(fnv(format!("{mode}{run}{}", args.seed()).as_bytes()), true);
            rep.count_n(&format!("growth_{mode}_base_moves_observed"), moves as u64);
            rep.count(&format!("growth_{mode}_runs"));
            let rp = json!({"kind":"growth","mode":mode,"run":run});
            if hung {
                // the writer stopped journaling: look at the child's stacks
                let out = std::process::Command::new("gdb")
                    .args(["-p", &ch.id().to_string(), "-batch", "-ex", "set pagination off", "-ex", "thread apply all bt 30"])
                    .output();
                let text = out.map(|o| String::from_utf8_lossy(&o.stdout).to_string()).unwrap_or_default();
                let _ = std::fs::write(workdir().join(format!("hang_{mode}_{run}.gdb.txt")), &text);
                let _ = ch.kill();
                let _ = ch.wait();
                classify_hang(rep, &text, &format!("growth scenario {mode} run {run} (stores journaled: {stores_done}, moves: {moves})"));
            } else if let Some(st) = status {
                if mode == "g3" && (st.signal().is_some() || st.code() == Some(7)) {
                    // no reader holds a reference in this scenario: nothing here is the recorded finding
                    let errtxt = ch.stderr.take().map(|mut e| { let mut s = String::new(); let _ = std::io::Read::read_to_string(&mut e, &mut s); s }).unwrap_or_default();
                    rep.finding(
                        "concurrent-writers-damaged-the-map",
                        &format!("growth scenario g3 run {run} (six writers, no readers): child ended with {st:?}: {}", errtxt.lines().last().unwrap_or("")),
                        rp,
                    );
                } else if let Some(sig) = st.signal() {
                    let sigclass = if moves > 0 { "mapping-moved-under-concurrent-reader" } else { "reader-crash-without-move" };
                    rep.finding(
                        sigclass,
                        &format!("growth scenario {mode} run {run}: child died with signal {sig} after {stores_done}+ journaled stores; the mapping base had moved {moves} times"),
                        rp,
                    );
                } else if st.code() == Some(7) {
                    let sigclass = if moves > 0 { "mapping-moved-under-concurrent-reader" } else { "reader-saw-wrong-bytes-without-move" };
                    rep.finding(sigclass, &format!("growth scenario {mode} run {run}: a reader saw wrong bytes; base moved {moves} times"), rp);
                } else if !st.success() {
                    rep.inconclusive.push(format!("growth child {mode}/{run} exited with {st:?}"));
                } else {
                    rep.count(&format!("growth_{mode}_completed"));
                }
            }
            let _ = std::fs::remove_dir_all(&dir);
            let _ = std::fs::remove_file(&journal);
        }
    }
}

pub fn run(args: &Args) -> Report {
    let mut rep = Report::new("C14", &args.leg(), &args.tier(), args.seed());
    match args.get_str("part", "all").as_str() {
        "schedules" => leg_schedules(&mut rep, args),
        "stress" => {
            leg_stress(&mut rep, args);
            leg_storm(&mut rep, args);
        }
        "storm" => leg_storm(&mut rep, args),
        "growth" => leg_growth(&mut rep, args),
        _ => {
            leg_schedules(&mut rep, args);
            leg_stress(&mut rep, args);
            leg_storm(&mut rep, args);
        }
    }
    pocket_db::verif::set_point_handler(None);
    if args.get("scenario").is_none() {
        match args.get_str("part", "all").as_str() {
            "growth" => {
                rep.require("growth_g1_runs", "growth scenario g1 did not run");
                rep.require("growth_g2_runs", "growth scenario g2 did not run");
                rep.require("growth_g1_growths_observed", "no growth of the map observed in g1");
                rep.require("growth_g3_completed", "the writers-only growth scenario g3 did not complete");
            }
            "stress" => {
                rep.require("stress_rounds", "no stress round completed");
                rep.require("storm_concurrent_lookups", "the replacement storm saw no concurrent lookup");
            }
            "storm" => rep.require("storm_concurrent_lookups", "the replacement storm saw no concurrent lookup"),
            "schedules" | _ => {
                rep.require("schedules_where_B_blocked_behind_A", "no schedule in which the second operation blocked behind the paused one");
                rep.require("schedules_where_B_ran_while_A_was_parked", "no schedule in which the second operation ran while the first was parked");
                if args.get_str("part", "all") == "all" {
                    rep.require("stress_rounds", "no stress round completed");
                    rep.require("ops_with_several_candidate_states", "no stress operation overlapped a commit");
                    rep.require("storm_concurrent_lookups", "the replacement storm saw no concurrent lookup");
                }
            }
        }
    }
    rep
}

// ------------------------------------------------------------------------------------------ C10 under concurrency

/// C10's clause on the schedules of the catalogue in which a deletion request names another author's event or
/// address while that author stores it: whatever the interleaving, an event of the other author whose store returned
/// an offset is retrievable afterwards and carries no deletion marker, and the other author's address has none.
fn judge_c10(rep: &mut Report, sc: &Scenario, live: &Live, recs: &[Rec], point: &str, blocked: bool) {
    let mut h = vec![];
    h.extend_from_slice(sc.name.as_bytes());
    h.extend_from_slice(point.as_bytes());
    h.push(blocked as u8);
    rep.eval(fnv(&h), true);
    rep.count("schedules_explored");
    let desc = |recs: &[Rec]| recs.iter().map(|r| format!("T{} {}[{}..{}] -> {:?}", r.thread, r.op.kind(), r.call, r.ret, r.res)).collect::<Vec<_>>().join("; ");
    let mut stored: BTreeSet<usize> = sc.prepopulate.iter().cloned().collect();
    for r in recs {
        if let (Opk::Store(i), Res::Store(Outcome::Ok(_))) = (&r.op, &r.res) {
            let _ = stored.insert(*i);
        }
    }
    let store = &live.ctx.store;
    let rp = json!({"kind":"c10-schedule","scenario":sc.name,"point":point});
    for (di, d) in sc.events.iter().enumerate() {
        if d.sem.kind != 5 || !sc.ops.iter().any(|o| matches!(o, Opk::Store(i) if *i == di)) {
            continue;
        }
        for tag in d.sem.tags.iter().filter(|t| t.len() >= 2) {
            if tag[0] == "e" {
                let ti = match sc.events.iter().position(|e| hex(&e.sem.id) == tag[1]) {
                    Some(ti) => ti,
                    None => continue,
                };
                let t = &sc.events[ti];
                if t.sem.pubkey == d.sem.pubkey || !stored.contains(&ti) {
                    continue;
                }
                rep.count("foreign_targets_whose_store_succeeded");
                let id = Id::from_bytes(t.sem.id);
                let there = matches!(store.get_event_by_id(id), Ok(Some(e)) if e.as_bytes() == t.bytes.as_slice());
                let marked = matches!(store.event_is_deleted(id), Ok(true));
                if !there || marked {
                    rep.finding(
                        &format!("concurrent-deletion-request-affected-other-author:{}", if !there { "unretrievable" } else { "marker" }),
                        &format!("scenario {} with A paused at {point} (others {}): event {} of another author was stored successfully, yet after the request of {} it is retrievable={there} marked-deleted={marked}. Observed: {}", sc.name, if blocked { "blocked" } else { "ran" }, t.short(), hex(&d.sem.pubkey[..2]), desc(recs)),
                        rp.clone(),
                    );
                }
            } else if tag[0] == "a" {
                let parts: Vec<&str> = tag[1].splitn(3, ':').collect();
                if parts.len() != 3 || parts[1] == hex(&d.sem.pubkey) {
                    continue;
                }
                let kind: u16 = match parts[0].parse() {
                    Ok(k) => k,
                    Err(_) => continue,
                };
                let holder = sc.events.iter().enumerate().filter(|(i, e)| stored.contains(i) && e.sem.kind == kind && hex(&e.sem.pubkey) == parts[1] && addr_of(&e.sem).map(|a| a.d == parts[2].as_bytes()).unwrap_or(false)).max_by_key(|(_, e)| (e.sem.created_at, std::cmp::Reverse(e.sem.id)));
                if let Some((_, t)) = holder {
                    rep.count("foreign_addresses_with_a_stored_holder");
                    let id = Id::from_bytes(t.sem.id);
                    let there = matches!(store.get_event_by_id(id), Ok(Some(e)) if e.as_bytes() == t.bytes.as_slice());
                    let addr = pocket_types::Addr { kind: kind.into(), author: pocket_types::Pubkey::from_bytes(t.sem.pubkey), d: parts[2].as_bytes().to_vec() };
                    let marked = !matches!(store.naddr_is_deleted_asof(&addr), Ok(None));
                    if !there || marked {
                        rep.finding(
                            &format!("concurrent-deletion-request-affected-other-author:{}", if !there { "address-holder-unretrievable" } else { "address-marker" }),
                            &format!("scenario {} with A paused at {point}: holder {} of another author's address retrievable={there}, address marked={marked}. Observed: {}", sc.name, t.short(), desc(recs)),
                            rp.clone(),
                        );
                    }
                }
            }
        }
    }
}

/// C11's clause on the schedules in which an author's own deletion request races with the store of what it covers:
/// once the request has been accepted, every event it covers (the `e` target of that author; events at its own
/// address created no later than the request) is unretrievable and marked, however the two calls interleaved - the
/// covered event may have been refused or removed, but it must not be there.
fn judge_c11(rep: &mut Report, sc: &Scenario, live: &Live, recs: &[Rec], point: &str, blocked: bool) {
    let mut h = vec![];
    h.extend_from_slice(sc.name.as_bytes());
    h.extend_from_slice(point.as_bytes());
    h.push(blocked as u8);
    rep.eval(fnv(&h), true);
    rep.count("schedules_explored");
    let desc = |recs: &[Rec]| recs.iter().map(|r| format!("T{} {}[{}..{}] -> {:?}", r.thread, r.op.kind(), r.call, r.ret, r.res)).collect::<Vec<_>>().join("; ");
    let mut accepted: BTreeSet<usize> = BTreeSet::new();
    for r in recs {
        if let (Opk::Store(i), Res::Store(Outcome::Ok(_))) = (&r.op, &r.res) {
            let _ = accepted.insert(*i);
        }
    }
    let store = &live.ctx.store;
    let rp = json!({"kind":"c11-schedule","scenario":sc.name,"point":point});
    for (di, d) in sc.events.iter().enumerate() {
        if d.sem.kind != 5 || !accepted.contains(&di) {
            continue;
        }
        rep.count("accepted_deletion_requests_judged");
        let mut covered: Vec<&Rc<Ev>> = vec![];
        for tag in d.sem.tags.iter().filter(|t| t.len() >= 2) {
            if tag[0] == "e" {
                if let Some(t) = sc.events.iter().find(|e| hex(&e.sem.id) == tag[1] && e.sem.pubkey == d.sem.pubkey && e.sem.kind != 5) {
                    covered.push(t);
                }
            } else if tag[0] == "a" {
                let parts: Vec<&str> = tag[1].splitn(3, ':').collect();
                if parts.len() == 3 && parts[1] == hex(&d.sem.pubkey) {
                    if let Ok(kind) = parts[0].parse::<u16>() {
                        for e in sc.events.iter() {
                            if e.sem.kind == kind && e.sem.pubkey == d.sem.pubkey && e.sem.created_at <= d.sem.created_at && addr_of(&e.sem).map(|a| a.d == parts[2].as_bytes()).unwrap_or(false) {
                                covered.push(e);
                            }
                        }
                    }
                }
            }
        }
        for t in covered {
            let id = Id::from_bytes(t.sem.id);
            let there = !matches!(store.has_event(id), Ok(false)) || !matches!(store.get_event_by_id(id), Ok(None));
            rep.count("covered_events_checked_after_an_accepted_request");
            if there {
                rep.finding(
                    "covered-event-retrievable-after-accepted-deletion-request:concurrent",
                    &format!("scenario {} with A paused at {point} (others {}): the request {} was accepted, yet the event {} it covers is still retrievable. Observed: {}", sc.name, if blocked { "blocked" } else { "ran" }, d.short(), t.short(), desc(recs)),
                    rp.clone(),
                );
            }
        }
    }
}

pub fn run_c11(args: &Args) -> Report {
    let mut rep = Report::new("C11", &args.leg(), &args.tier(), args.seed());
    install_handler();
    JITTER_US.store(0, Ordering::Relaxed);
    let mut rng = Rng::new(args.seed() ^ 0xC14);
    let scs = catalogue(&mut rng);
    let wanted = |n: &str| (n.contains("delete") || n.contains("target")) && !n.contains("foreign") && !n.contains("mixed");
    for (si, sc) in scs.iter().enumerate().filter(|(_, sc)| wanted(&sc.name)) {
        let (live, recs, census, _, hung) = match run_scheduled(sc, None, &format!("c11s{si}_census")) {
            Some(x) => x,
            None => {
                rep.inconclusive.push(format!("scenario {} could not be set up", sc.name));
                continue;
            }
        };
        if hung {
            rep.inconclusive.push(format!("scenario {} made no progress (hangs are C14's subject)", sc.name));
            break;
        }
        judge_c11(&mut rep, sc, &live, &recs, "census(no pause)", false);
        teardown(live);
        for (pi, (pname, pocc)) in census.iter().enumerate() {
            let (live, recs, _, blocked, hung) = match run_scheduled(sc, Some((pname.to_string(), *pocc)), &format!("c11s{si}_p{pi}")) {
                Some(x) => x,
                None => continue,
            };
            if hung {
                rep.inconclusive.push(format!("scenario {} paused at {pname}#{pocc} made no progress (hangs are C14's subject)", sc.name));
                pocket_db::verif::set_point_handler(None);
                return rep;
            }
            rep.count(if blocked { "schedules_where_B_blocked_behind_A" } else { "schedules_where_B_ran_while_A_was_parked" });
            judge_c11(&mut rep, sc, &live, &recs, &format!("{}#{}", pname, pocc), blocked);
            teardown(live);
        }
    }
    pocket_db::verif::set_point_handler(None);
    rep.require("schedules_where_B_blocked_behind_A", "no schedule in which the second operation blocked behind the paused one");
    rep.require("covered_events_checked_after_an_accepted_request", "no schedule in which a deletion request with a covered event was accepted");
    rep
}

pub fn run_c10(args: &Args) -> Report {
    let mut rep = Report::new("C10", &args.leg(), &args.tier(), args.seed());
    install_handler();
    JITTER_US.store(0, Ordering::Relaxed);
    let mut rng = Rng::new(args.seed() ^ 0xC14);
    let scs = catalogue(&mut rng);
    for (si, sc) in scs.iter().enumerate().filter(|(_, sc)| sc.name.contains("foreign") || sc.name.contains("mixed-delete")) {
        let (live, recs, census, _, hung) = match run_scheduled(sc, None, &format!("c10s{si}_census")) {
            Some(x) => x,
            None => {
                rep.inconclusive.push(format!("scenario {} could not be set up", sc.name));
                continue;
            }
        };
        if hung {
            rep.inconclusive.push(format!("scenario {} made no progress (hangs are C14's subject)", sc.name));
            break;
        }
        judge_c10(&mut rep, sc, &live, &recs, "census(no pause)", false);
        teardown(live);
        // every hit of every point of the paused operation, both orders being separate scenarios of the catalogue
        for (pi, (pname, pocc)) in census.iter().enumerate() {
            let (live, recs, _, blocked, hung) = match run_scheduled(sc, Some((pname.to_string(), *pocc)), &format!("c10s{si}_p{pi}")) {
                Some(x) => x,
                None => continue,
            };
            if hung {
                rep.inconclusive.push(format!("scenario {} paused at {pname}#{pocc} made no progress (hangs are C14's subject)", sc.name));
                pocket_db::verif::set_point_handler(None);
                return rep;
            }
            rep.count(if blocked { "schedules_where_B_blocked_behind_A" } else { "schedules_where_B_ran_while_A_was_parked" });
            judge_c10(&mut rep, sc, &live, &recs, &format!("{}#{}", pname, pocc), blocked);
            teardown(live);
        }
    }
    pocket_db::verif::set_point_handler(None);
    rep.require("schedules_where_B_blocked_behind_A", "no schedule in which the second operation blocked behind the paused one");
    rep.require("foreign_targets_whose_store_succeeded", "no schedule in which the other author's event was stored");
    rep.require("foreign_addresses_with_a_stored_holder", "no schedule with a holder at the other author's address");
    rep
}

pub fn replay(v: &serde_json::Value, rep: &mut Report, args: &Args) {
    let mut a = Args { cmd: "c14".into(), kv: args.kv.clone(), pos: vec![] };
    let _ = a.kv.insert("seed".into(), v["seed"].as_u64().unwrap_or(args.seed()).to_string());
    match v["kind"].as_str().unwrap_or("") {
        "schedule" => {
            let _ = a.kv.insert("part".into(), "schedules".into());
            let _ = a.kv.insert("scenario".into(), v["scenario"].as_str().unwrap_or("").to_string());
            let _ = a.kv.insert("tier".into(), "thorough".into());
        }
        "stress" => {
            let _ = a.kv.insert("part".into(), "stress".into());
        }
        _ => {
            let _ = a.kv.insert("part".into(), "growth".into());
        }
    }
    let r = run(&a);
    rep.evaluations += r.evaluations;
    for f in r.findings {
        rep.finding_for(&f.prop, &f.signature, &f.detail, f.replay);
    }
}

// ------------------------------------------------------------------------------------------ LMDB monotonicity probe
/// Diagnostic (not a check): the same access pattern as the replacement storm directly on LMDB through heed, with the
/// environment flags pocket-db uses: one writer replaces the single key of a table (delete K(n-1), put K(n), commit),
/// reader threads open a read transaction each time and read the first key. Does a reader ever see n go backwards?
pub fn lmdb_probe(args: &Args) {
    use pocket_db::heed::types::Bytes;
    use pocket_db::heed::{Database, EnvFlags, EnvOpenOptions};
    let dir = workdir().join("lmdb_probe");
    let _ = std::fs::remove_dir_all(&dir);
    std::fs::create_dir_all(&dir).unwrap();
    let notls = args.get_str("flags", "pocket") == "pocket";
    let mut b = EnvOpenOptions::new();
    unsafe {
        if notls {
            let _ = b.flags(EnvFlags::NO_TLS | EnvFlags::NO_SYNC | EnvFlags::NO_META_SYNC);
        } else {
            let _ = b.flags(EnvFlags::NO_TLS);
        }
    }
    let _ = b.max_dbs(4).map_size(1 << 30);
    let env = unsafe { b.open(&dir).unwrap() };
    let mut w = env.write_txn().unwrap();
    let db: Database<Bytes, Bytes> = env.database_options().types::<Bytes, Bytes>().name("t").create(&mut w).unwrap();
    db.put(&mut w, &0u64.to_be_bytes(), b"v").unwrap();
    w.commit().unwrap();
    let stop = Arc::new(AtomicBool::new(false));
    let bad = Arc::new(AtomicU64::new(0));
    let reads = Arc::new(AtomicU64::new(0));
    let mut hs = vec![];
    for _ in 0..6 {
        let (env, stop, bad, reads) = (env.clone(), stop.clone(), bad.clone(), reads.clone());
        hs.push(std::thread::spawn(move || {
            let mut seen = 0u64;
            while !stop.load(Ordering::Relaxed) {
                let r = env.read_txn().unwrap();
                let mut n_keys = 0;
                let mut first = 0u64;
                for it in db.iter(&r).unwrap() {
                    let (k, _) = it.unwrap();
                    if n_keys == 0 {
                        first = u64::from_be_bytes(k.try_into().unwrap());
                    }
                    n_keys += 1;
                }
                drop(r);
                reads.fetch_add(1, Ordering::Relaxed);
                if n_keys != 1 || first < seen {
                    bad.fetch_add(1, Ordering::Relaxed);
                    eprintln!("ANOMALY keys={n_keys} first={first} seen={seen}");
                }
                seen = seen.max(first);
            }
        }));
    }
    let n = args.get_u64("n", 300_000);
    for i in 1..=n {
        let mut w = env.write_txn().unwrap();
        let _ = db.delete(&mut w, &(i - 1).to_be_bytes()).unwrap();
        db.put(&mut w, &i.to_be_bytes(), &vec![7u8; 200]).unwrap();
        w.commit().unwrap();
    }
    stop.store(true, Ordering::Relaxed);
    for h in hs {
        let _ = h.join();
    }
    println!("lmdb_probe: {} commits, {} reads, {} anomalies", n, reads.load(Ordering::Relaxed), bad.load(Ordering::Relaxed));
}
