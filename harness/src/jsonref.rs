//! The independent JSON parser (serde_json) and extraction of event / filter values from it.
#![allow(dead_code)]

use crate::sem::{SemEvent, SemFilter};
use crate::util::unhex;
use serde::de::{Deserialize, Deserializer, MapAccess, Visitor};
use serde_json::Value;
use std::fmt;

/// Top-level JSON object with member order and duplicates preserved.
pub struct TopObj(pub Vec<(String, Value)>);

impl<'de> Deserialize<'de> for TopObj {
    fn deserialize<D: Deserializer<'de>>(d: D) -> Result<TopObj, D::Error> {
        struct V;
        impl<'de> Visitor<'de> for V {
            type Value = TopObj;
            fn expecting(&self, f: &mut fmt::Formatter) -> fmt::Result {
                write!(f, "a JSON object")
            }
            fn visit_map<A: MapAccess<'de>>(self, mut m: A) -> Result<TopObj, A::Error> {
                let mut v = vec![];
                while let Some((k, val)) = m.next_entry::<String, Value>()? {
                    v.push((k, val));
                }
                Ok(TopObj(v))
            }
        }
        d.deserialize_map(V)
    }
}

#[derive(Debug, Clone, PartialEq, Eq)]
pub enum RefErr {
    /// serde_json does not accept the text as exactly one JSON object
    NotJson(String),
    /// the top-level object has duplicate member names (meaning undefined by RFC 8259)
    DupKeys(String),
    /// valid JSON, but a NIP-01 member is missing or has the wrong JSON type / range
    Shape(String),
}

pub fn parse_top(text: &[u8]) -> Result<TopObj, RefErr> {
    let top: TopObj = serde_json::from_slice(text).map_err(|e| RefErr::NotJson(e.to_string()))?;
    for i in 0..top.0.len() {
        for j in 0..i {
            if top.0[i].0 == top.0[j].0 {
                return Err(RefErr::DupKeys(top.0[i].0.clone()));
            }
        }
    }
    Ok(top)
}

fn get<'a>(top: &'a TopObj, k: &str) -> Option<&'a Value> {
    top.0.iter().find(|(kk, _)| kk == k).map(|(_, v)| v)
}

fn hexfield<const N: usize>(top: &TopObj, k: &str) -> Result<[u8; N], RefErr> {
    let v = get(top, k).ok_or_else(|| RefErr::Shape(format!("{k} missing")))?;
    let s = v.as_str().ok_or_else(|| RefErr::Shape(format!("{k} is not a string")))?;
    let b = unhex(s).ok_or_else(|| RefErr::Shape(format!("{k} is not hex")))?;
    if b.len() != N {
        return Err(RefErr::Shape(format!("{k} has {} bytes", b.len())));
    }
    let mut a = [0u8; N];
    a.copy_from_slice(&b);
    Ok(a)
}

fn strings(v: &Value, what: &str) -> Result<Vec<String>, RefErr> {
    let arr = v.as_array().ok_or_else(|| RefErr::Shape(format!("{what} is not an array")))?;
    let mut out = vec![];
    for x in arr {
        out.push(
            x.as_str()
                .ok_or_else(|| RefErr::Shape(format!("{what} element is not a string")))?
                .to_string(),
        );
    }
    Ok(out)
}

/// What the independent parser says the event is. `Shape` errors include out-of-range integers.
pub fn extract_event(text: &[u8]) -> Result<SemEvent, RefErr> {
    let top = parse_top(text)?;
    let id = hexfield::<32>(&top, "id")?;
    let pubkey = hexfield::<32>(&top, "pubkey")?;
    let sig = hexfield::<64>(&top, "sig")?;
    let kind = get(&top, "kind")
        .ok_or_else(|| RefErr::Shape("kind missing".into()))?
        .as_u64()
        .ok_or_else(|| RefErr::Shape("kind is not an unsigned integer".into()))?;
    if kind > 65535 {
        return Err(RefErr::Shape(format!("kind {kind} > 65535")));
    }
    let cv = get(&top, "created_at").ok_or_else(|| RefErr::Shape("created_at missing".into()))?;
    let created_at = cv
        .as_u64()
        .ok_or_else(|| RefErr::Shape(format!("created_at {cv} is not an integer below 2^64")))?;
    if !cv.is_u64() {
        return Err(RefErr::Shape("created_at not u64".into()));
    }
    let tv = get(&top, "tags").ok_or_else(|| RefErr::Shape("tags missing".into()))?;
    let tarr = tv.as_array().ok_or_else(|| RefErr::Shape("tags is not an array".into()))?;
    let mut tags = vec![];
    for t in tarr {
        tags.push(strings(t, "tag")?);
    }
    let content = get(&top, "content")
        .ok_or_else(|| RefErr::Shape("content missing".into()))?
        .as_str()
        .ok_or_else(|| RefErr::Shape("content is not a string".into()))?
        .to_string();
    Ok(SemEvent {
        id,
        pubkey,
        sig,
        kind: kind as u16,
        created_at,
        tags,
        content,
    })
}

/// Integer member of a filter as the independent parser sees it
#[derive(Debug, Clone, PartialEq)]
pub enum RefInt {
    Absent,
    U64(u64),
    /// a JSON number that is not an unsigned 64-bit integer (too large, negative, fractional)
    OutOfRange(String),
}

#[derive(Debug, Clone)]
pub struct RefFilter {
    pub ids: Vec<[u8; 32]>,
    pub authors: Vec<[u8; 32]>,
    pub kinds: Vec<u64>,
    /// in order of appearance: (letter, values)
    pub tags: Vec<(String, Vec<String>)>,
    pub since: RefInt,
    pub until: RefInt,
    pub limit: RefInt,
}

fn refint(top: &TopObj, k: &str) -> Result<RefInt, RefErr> {
    match get(top, k) {
        None => Ok(RefInt::Absent),
        Some(v) => {
            if let Some(u) = v.as_u64() {
                Ok(RefInt::U64(u))
            } else if v.is_number() {
                Ok(RefInt::OutOfRange(v.to_string()))
            } else {
                Err(RefErr::Shape(format!("{k} is not a number")))
            }
        }
    }
}

fn hexlist(top: &TopObj, k: &str) -> Result<Vec<[u8; 32]>, RefErr> {
    match get(top, k) {
        None => Ok(vec![]),
        Some(v) => {
            let mut out = vec![];
            for s in strings(v, k)? {
                let b = unhex(&s).ok_or_else(|| RefErr::Shape(format!("{k} element not hex")))?;
                if b.len() != 32 {
                    return Err(RefErr::Shape(format!("{k} element has {} bytes", b.len())));
                }
                let mut a = [0u8; 32];
                a.copy_from_slice(&b);
                out.push(a);
            }
            Ok(out)
        }
    }
}

pub fn extract_filter(text: &[u8]) -> Result<RefFilter, RefErr> {
    let top = parse_top(text)?;
    let ids = hexlist(&top, "ids")?;
    let authors = hexlist(&top, "authors")?;
    let mut kinds = vec![];
    if let Some(v) = get(&top, "kinds") {
        let arr = v.as_array().ok_or_else(|| RefErr::Shape("kinds is not an array".into()))?;
        for k in arr {
            kinds.push(
                k.as_u64()
                    .ok_or_else(|| RefErr::Shape("kinds element is not an unsigned integer".into()))?,
            );
        }
    }
    let mut tags = vec![];
    for (k, v) in top.0.iter() {
        let kb = k.as_bytes();
        if kb.len() == 2 && kb[0] == b'#' && kb[1].is_ascii_alphabetic() {
            tags.push((k[1..].to_string(), strings(v, k)?));
        }
    }
    Ok(RefFilter {
        ids,
        authors,
        kinds,
        tags,
        since: refint(&top, "since")?,
        until: refint(&top, "until")?,
        limit: refint(&top, "limit")?,
    })
}

impl RefFilter {
    /// Convert to a semantic filter when every integer is in range; None otherwise.
    pub fn to_sem(&self) -> Option<SemFilter> {
        let mut kinds = vec![];
        for k in &self.kinds {
            if *k > 65535 {
                return None;
            }
            kinds.push(*k as u16);
        }
        let conv = |r: &RefInt| -> Option<Option<u64>> {
            match r {
                RefInt::Absent => Some(None),
                RefInt::U64(u) => Some(Some(*u)),
                RefInt::OutOfRange(_) => None,
            }
        };
        let limit = match conv(&self.limit)? {
            None => None,
            Some(u) => {
                if u > u32::MAX as u64 {
                    return None;
                }
                Some(u as u32)
            }
        };
        Some(SemFilter {
            ids: self.ids.clone(),
            authors: self.authors.clone(),
            kinds,
            tags: self.tags.clone(),
            since: conv(&self.since)?,
            until: conv(&self.until)?,
            limit,
        })
    }
}
