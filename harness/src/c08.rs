//! C08 — Event verification accepts exactly correctly hashed and signed events.
use crate::sem::*;
use crate::sha256::sha256;
use crate::util::*;
use pocket_types::secp256k1::{self, Keypair, Message, SECP256K1};
use pocket_types::{Kind, OwnedEvent, Time};
use serde_json::json;

pub fn canonical(e: &SemEvent) -> String {
    serde_json::to_string(&json!([0, hex(&e.pubkey), e.created_at, e.kind, e.tags, e.content])).unwrap()
}

pub fn reference_id(e: &SemEvent) -> [u8; 32] {
    sha256(canonical(e).as_bytes())
}

pub fn keypair(n: u8) -> Keypair {
    let mut sk = [0x42u8; 32];
    sk[31] = n.wrapping_add(1);
    sk[0] = 1 + n;
    Keypair::from_seckey_slice(SECP256K1, &sk).expect("valid secret key")
}

pub fn xonly(kp: &Keypair) -> [u8; 32] {
    kp.x_only_public_key().0.serialize()
}

pub fn sign_id(kp: &Keypair, id: &[u8; 32]) -> [u8; 64] {
    let msg = Message::from_digest(*id);
    SECP256K1.sign_schnorr_no_aux_rand(&msg, kp).serialize()
}

/// complete a semantic event: pubkey from kp, id = reference hash, sig = BIP-340 signature
pub fn seal(e: &mut SemEvent, kp: &Keypair) {
    e.pubkey = xonly(kp);
    e.id = reference_id(e);
    e.sig = sign_id(kp, &e.id);
}

fn replay_of(e: &SemEvent, what: &str) -> serde_json::Value {
    json!({"kind":"event","what":what,"id":hex(&e.id),"pubkey":hex(&e.pubkey),"sig":hex(&e.sig),"k":e.kind,
           "created_at":e.created_at,"tags":e.tags,"content":e.content})
}

/// verify() through pocket: Ok(true)=verifies, Ok(false)=fails cleanly
fn pocket_verify(e: &SemEvent) -> Result<Result<bool, String>, PanicInfo> {
    catch(|| {
        let o = e.to_owned()?;
        Ok(o.verify().is_ok())
    })
}

fn mutate_string(rng: &mut Rng, s: &str) -> Vec<String> {
    let mut out = vec![];
    let chars: Vec<char> = s.chars().collect();
    if !chars.is_empty() {
        let i = rng.usize_below(chars.len());
        let mut c2 = chars.clone();
        c2[i] = if chars[i] == 'x' { 'y' } else { 'x' };
        out.push(c2.iter().collect());
        // case flip
        if let Some(j) = chars.iter().position(|c| c.is_ascii_alphabetic()) {
            let mut c3 = chars.clone();
            c3[j] = if chars[j].is_ascii_lowercase() { chars[j].to_ascii_uppercase() } else { chars[j].to_ascii_lowercase() };
            out.push(c3.iter().collect());
        }
        // emptied / shortened
        out.push(String::new());
        out.push(chars[..chars.len() - 1].iter().collect());
        // escape-sensitive replacements
        let mut c4 = chars.clone();
        c4[i] = *rng.pick(&['"', '\\', '/', '\n', '\u{b}', '\u{1f}', '\u{7f}', '\u{e9}']);
        if c4 != chars {
            out.push(c4.iter().collect());
        }
    }
    out.push(format!("{s} "));
    out.push(format!(" {s}"));
    out.push(format!("{s}\u{0}"));
    out
}

fn mutants(rng: &mut Rng, e: &SemEvent, other_kp: &Keypair, thorough: bool) -> Vec<(String, SemEvent)> {
    let mut v: Vec<(String, SemEvent)> = vec![];
    // id bits
    let bits: Vec<usize> = if thorough { (0..256).collect() } else { (0..256).step_by(5).chain([7, 255]).collect() };
    for b in bits {
        let mut m = e.clone();
        m.id[b / 8] ^= 1 << (b % 8);
        v.push((format!("id-bit-{b}"), m));
    }
    // whole-field id changes whose per-byte differences cancel under folding (exchanged, reversed, rotated bytes,
    // the same mask in two bytes), ids right only in a prefix / suffix, unrelated ids
    {
        let i = rng.usize_below(32);
        let mut j = rng.usize_below(32);
        let mut guard = 0;
        while (j == i || e.id[j] == e.id[i]) && guard < 64 {
            j = (j + 1) % 32;
            guard += 1;
        }
        let mut m = e.clone();
        m.id.swap(i, j);
        v.push(("id-two-bytes-exchanged".to_string(), m));
        let mut m = e.clone();
        m.id.reverse();
        v.push(("id-reversed".into(), m));
        let mut m = e.clone();
        m.id.rotate_left(1 + rng.usize_below(31));
        v.push(("id-rotated".into(), m));
        let mask = 1u8 << rng.below(8);
        let mut m = e.clone();
        m.id[i] ^= mask;
        m.id[(i + 1 + rng.usize_below(31)) % 32] ^= mask;
        v.push(("id-same-mask-in-two-bytes".into(), m));
        let mut m = e.clone();
        let k = *rng.pick(&[1usize, 4, 8, 16, 24, 31]);
        for b in m.id[k..].iter_mut() {
            *b = !*b;
        }
        v.push(("id-right-only-in-a-prefix".to_string(), m));
        let mut m = e.clone();
        for b in m.id[..32 - k].iter_mut() {
            *b = !*b;
        }
        v.push(("id-right-only-in-a-suffix".to_string(), m));
        let mut m = e.clone();
        m.id = rng.arr32();
        v.push(("id-unrelated".into(), m));
        // signature / pubkey: halves exchanged, reversed
        let mut m = e.clone();
        m.sig.rotate_left(32);
        v.push(("sig-halves-exchanged".into(), m));
        let mut m = e.clone();
        m.sig.reverse();
        v.push(("sig-reversed".into(), m));
        let mut m = e.clone();
        m.pubkey.reverse();
        v.push(("pubkey-reversed".into(), m));
    }
    for _ in 0..12 {
        let b = rng.usize_below(256);
        let mut m = e.clone();
        m.pubkey[b / 8] ^= 1 << (b % 8);
        v.push((format!("pubkey-bit-{b}"), m));
        let b = rng.usize_below(512);
        let mut m = e.clone();
        m.sig[b / 8] ^= 1 << (b % 8);
        v.push((format!("sig-bit-{b}"), m));
    }
    for (name, f) in [
        ("created_at+1", Box::new(|m: &mut SemEvent| m.created_at = m.created_at.wrapping_add(1)) as Box<dyn Fn(&mut SemEvent)>),
        ("created_at-1", Box::new(|m: &mut SemEvent| m.created_at = m.created_at.wrapping_sub(1))),
        ("created_at-low32", Box::new(|m: &mut SemEvent| m.created_at ^= 1 << 32)),
        ("kind+1", Box::new(|m: &mut SemEvent| m.kind = m.kind.wrapping_add(1))),
        ("kind-1", Box::new(|m: &mut SemEvent| m.kind = m.kind.wrapping_sub(1))),
        ("kind-high-byte", Box::new(|m: &mut SemEvent| m.kind ^= 0x100)),
    ] {
        let mut m = e.clone();
        f(&mut m);
        v.push((name.to_string(), m));
    }
    // content
    for (i, c) in mutate_string(rng, &e.content).into_iter().enumerate() {
        let mut m = e.clone();
        m.content = c;
        v.push((format!("content-{i}"), m));
    }
    // tag strings
    for ti in 0..e.tags.len() {
        for si in 0..e.tags[ti].len() {
            for (i, c) in mutate_string(rng, &e.tags[ti][si]).into_iter().enumerate().take(4) {
                let mut m = e.clone();
                m.tags[ti][si] = c;
                v.push((format!("tag{ti}.{si}-{i}"), m));
            }
        }
    }
    // tag structure
    {
        let mut m = e.clone();
        m.tags.push(vec![]);
        v.push(("tags+empty-tag".into(), m));
        let mut m = e.clone();
        m.tags.insert(0, vec![]);
        v.push(("tags+empty-tag-front".into(), m));
        let mut m = e.clone();
        m.tags.push(vec![String::new()]);
        v.push(("tags+tag-with-empty-string".into(), m));
    }
    if !e.tags.is_empty() {
        let ti = rng.usize_below(e.tags.len());
        let mut m = e.clone();
        let _ = m.tags.remove(ti);
        v.push(("tags-drop".into(), m));
        let mut m = e.clone();
        let t = m.tags[ti].clone();
        m.tags.insert(ti, t);
        v.push(("tags-duplicate".into(), m));
        if e.tags[ti].len() >= 2 {
            // split ["a","b",..] into ["a"],["b",..]
            let mut m = e.clone();
            let rest = m.tags[ti].split_off(1);
            m.tags.insert(ti + 1, rest);
            v.push(("tags-split".into(), m));
            // join the two first strings into one: "a","b" -> "a\",\"b" (nested-looking) and "ab"
            let mut m = e.clone();
            let joined = format!("{}\",\"{}", m.tags[ti][0], m.tags[ti][1]);
            m.tags[ti][0] = joined;
            let _ = m.tags[ti].remove(1);
            v.push(("tags-join-quoted".into(), m));
            let mut m = e.clone();
            m.tags[ti].swap(0, 1);
            v.push(("tag-strings-swapped".into(), m));
        }
        let mut m = e.clone();
        m.tags[ti].push(String::new());
        v.push(("tag+empty-string".into(), m));
        if e.tags.len() >= 2 {
            let mut m = e.clone();
            m.tags.swap(0, e.tags.len() - 1);
            v.push(("tags-reordered".into(), m));
            // merge two tags
            let mut m = e.clone();
            let t1 = m.tags.remove(1);
            m.tags[0].extend(t1);
            v.push(("tags-merged".into(), m));
        }
    }
    // another author's key, id unchanged
    {
        let mut m = e.clone();
        m.pubkey = xonly(other_kp);
        v.push(("pubkey-replaced".into(), m));
        // consistent id for the new pubkey, but the signature is still the old author's
        let mut m = e.clone();
        m.pubkey = xonly(other_kp);
        m.id = reference_id(&m);
        v.push(("pubkey-replaced+id-recomputed".into(), m));
        // a valid signature by another key over the same id
        let mut m = e.clone();
        m.sig = sign_id(other_kp, &e.id);
        v.push(("sig-by-other-key".into(), m));
        // the author's valid signature over a different id
        let mut m = e.clone();
        let mut other_id = e.id;
        other_id[0] ^= 0xff;
        m.sig = sign_id(&keypair(0), &other_id);
        v.push(("sig-over-other-id".into(), m));
    }
    v.into_iter().filter(|(_, m)| m != e).collect()
}

pub fn gen_event(rng: &mut Rng, k: u64) -> SemEvent {
    let mut e = rand_event(rng);
    // systematic content/tag strings: every ASCII character alone and in runs, adjacent escapes
    let kk = (k % 700) as u32;
    if kk < 128 {
        let ch = char::from_u32(kk).unwrap();
        e.content = format!("{ch}");
        e.tags = vec![vec!["t".into(), format!("{ch}{ch}")], vec![format!("x{ch}y")]];
    } else if kk < 256 {
        let ch = char::from_u32(kk - 128).unwrap();
        e.content = format!("a{ch}{ch}{ch}\"\\{ch}/");
        e.tags = vec![vec![format!("{ch}\\"), format!("\"{ch}")]];
    } else if kk < 300 {
        let specials = ["[\"a\"]", "\\\"", "\"],[\"", "[[]]", "{\"a\":1}", "\\u0041", "\\n", "\u{7f}", "\u{80}", "\u{7ff}\u{800}", "\u{ffff}\u{10000}", "\u{10ffff}", "\u{2028}\u{2029}", "\u{feff}"];
        let s = specials[(kk - 256) as usize % specials.len()];
        e.content = s.to_string();
        e.tags = vec![vec![s.to_string(), s.to_string()], vec![], vec![String::new()]];
    } else if kk < 320 {
        e.tags = vec![];
        e.content = String::new();
    }
    e
}

pub fn check_event(rep: &mut Report, rng: &mut Rng, base: &SemEvent, thorough: bool) {
    let kp = keypair((rng.below(4)) as u8);
    let other = keypair(9);
    let mut e = base.clone();
    seal(&mut e, &kp);
    rep.eval(e.hash(), !e.content.is_empty() || !e.tags.is_empty());
    // harness self-check: two SHA-256 implementations agree
    {
        use secp256k1::hashes::{sha256 as h, Hash};
        let c = canonical(&e);
        let a = h::Hash::hash(c.as_bytes());
        if <h::Hash as AsRef<[u8]>>::as_ref(&a) != e.id {
            rep.count("harness_error_sha256_mismatch");
            rep.notes.push("harness SHA-256 disagrees with bitcoin_hashes".into());
            return;
        }
    }
    // (1) independently hashed and signed event must verify
    match pocket_verify(&e) {
        Ok(Ok(true)) => rep.count("independently_signed_verified"),
        Ok(Ok(false)) => {
            let why = e.to_owned().ok().and_then(|o| o.verify().err()).map(|x| format!("{x}")).unwrap_or_default();
            rep.finding(
                "valid-event-rejected",
                &format!("event hashed by the independent canonicaliser and correctly signed does not verify: {why}; canonical form {}", show(canonical(&e).as_bytes(), 300)),
                replay_of(&e, "valid"),
            )
        }
        Ok(Err(err)) => {
            rep.count("constructor_refused");
            let _ = err;
            return;
        }
        Err(p) => rep.finding(&format!("verify-panic:{}@{}", panic_class(&p.message), p.location), &p.message, replay_of(&e, "valid")),
    }
    // (2) the signing constructor
    let tags = match e.owned_tags() {
        Ok(t) => t,
        Err(_) => return,
    };
    match catch(|| OwnedEvent::sign_new(&kp, Kind::from_u16(e.kind), &tags, Time::from_u64(e.created_at), e.content.as_bytes())) {
        Ok(Ok(se)) => {
            rep.count("sign_new_events");
            if se.id().as_slice() != e.id {
                rep.finding(
                    "sign_new-id-differs-from-independent-hash",
                    &format!("sign_new id {} != reference {}; canonical {}", hex(se.id().as_slice()), hex(&e.id), show(canonical(&e).as_bytes(), 300)),
                    replay_of(&e, "sign_new"),
                );
            }
            match catch(|| se.verify().is_ok()) {
                Ok(true) => {}
                Ok(false) => rep.finding("sign_new-event-does-not-verify", "", replay_of(&e, "sign_new")),
                Err(p) => rep.finding(&format!("verify-panic:{}@{}", panic_class(&p.message), p.location), &p.message, replay_of(&e, "sign_new")),
            }
            if se.pubkey().as_slice() != e.pubkey || se.kind().as_u16() != e.kind || se.created_at().as_u64() != e.created_at || se.content() != e.content.as_bytes() {
                rep.finding("sign_new-fields-differ", "", replay_of(&e, "sign_new"));
            }
        }
        Ok(Err(err)) => rep.finding("sign_new-error", &format!("{err}"), replay_of(&e, "sign_new")),
        Err(p) => rep.finding(&format!("sign_new-panic:{}@{}", panic_class(&p.message), p.location), &p.message, replay_of(&e, "sign_new")),
    }
    // (3) every single-field mutation must fail verification
    for (name, m) in mutants(rng, &e, &other, thorough) {
        rep.count("mutations_checked");
        let class: String = name.split(|c: char| c == '-' || c.is_ascii_digit() || c == '.').next().unwrap_or("").to_string();
        match pocket_verify(&m) {
            Ok(Ok(false)) => rep.count(&format!("mutation_rejected:{class}")),
            Ok(Ok(true)) => rep.finding(
                &format!("tampered-event-verifies:{}", name.trim_end_matches(|c: char| c.is_ascii_digit() || c == '-')),
                &format!("mutation {name} still verifies; original canonical {} ; mutated canonical {}", show(canonical(&e).as_bytes(), 200), show(canonical(&m).as_bytes(), 200)),
                json!({"kind":"mutant","name":name,"original":replay_of(&e, "orig"),"mutated":replay_of(&m, "mut")}),
            ),
            Ok(Err(_)) => rep.count("mutant_constructor_refused"),
            Err(p) => rep.finding(&format!("verify-panic:{}@{}", panic_class(&p.message), p.location), &format!("on mutation {name}: {}", p.message), replay_of(&m, "mut")),
        }
    }
}

pub fn run(args: &Args) -> Report {
    let mut rep = Report::new("C08", &args.leg(), &args.tier(), args.seed());
    let mut rng = Rng::new(args.seed() ^ 0xC08);
    let n = if args.thorough() { 60_000 } else { 4_200 };
    // every BMP scalar (thorough) / every 64th and the encoding boundaries (quick) in content and a tag string
    {
        let stride = if args.thorough() { 1 } else { 64 };
        let (_, e2) = crate::c01::base_events();
        for c in (0u32..=0xFFFF).filter(|c| c % stride == 0 || [0x7f, 0x80, 0x7ff, 0x800, 0x2028, 0x2029, 0xd7ff, 0xe000, 0xfeff, 0xfffd, 0xffff].contains(c)) {
            if let Some(ch) = char::from_u32(c) {
                let mut e = e2.clone();
                e.content = format!("a{ch}");
                e.tags = vec![vec!["t".into(), format!("{ch}")]];
                check_event(&mut rep, &mut rng, &e, false);
                rep.count("scalar_sweep_events");
            }
        }
    }
    // sizes around the format's 16-bit boundaries (content length is a 32-bit field, the tag section a 16-bit one)
    {
        let (e1, e2) = crate::c01::base_events();
        for (clen, fill) in [(65_535usize, "a"), (65_536, "a"), (65_537, "b"), (70_000, "\""), (131_072, "c")] {
            let mut e = e2.clone();
            e.content = fill.repeat(clen);
            check_event(&mut rep, &mut rng, &e, false);
            rep.count("large_content_events");
        }
        for tlen in [30_000usize, 65_000] {
            let mut e = e1.clone();
            e.tags = vec![vec!["t".into(), "v".repeat(tlen)]];
            check_event(&mut rep, &mut rng, &e, false);
            rep.count("large_tag_events");
        }
        // long runs of 2-, 3- and 4-byte characters at every alignment (a hasher fed in fixed-size pieces must not
        // cut a character), in content and in a tag string
        for ch in ["\u{e9}", "\u{20ac}", "\u{1f600}", "\u{10ffff}"] {
            for lead in 0..4usize {
                for n in [1_400usize, 2_100, 6_000] {
                    let mut e = e2.clone();
                    e.content = format!("{}{}", "a".repeat(lead), ch.repeat(n));
                    check_event(&mut rep, &mut rng, &e, false);
                    rep.count("long_multibyte_events");
                }
                let mut e = e1.clone();
                e.tags = vec![vec!["t".into(), format!("{}{}", "a".repeat(lead), ch.repeat(3_000))]];
                check_event(&mut rep, &mut rng, &e, false);
            }
        }
    }
    for k in 0..n {
        let mut e = gen_event(&mut rng, k);
        if e.tags.len() > 8 {
            e.tags.truncate(8);
        }
        check_event(&mut rep, &mut rng, &e, args.thorough());
        if k == 5 || k == 300 || k == 900 {
            let mut s = e.clone();
            seal(&mut s, &keypair(0));
            rep.sample(json!({"canonical":show(canonical(&s).as_bytes(), 300),"id":hex(&s.id)}));
        }
    }
    rep
}

fn sem_from(v: &serde_json::Value) -> Option<SemEvent> {
    let b32 = |k: &str| -> Option<[u8; 32]> {
        let b = unhex(v[k].as_str()?)?;
        let mut a = [0u8; 32];
        (b.len() == 32).then(|| {
            a.copy_from_slice(&b);
            a
        })
    };
    let sb = unhex(v["sig"].as_str()?)?;
    let mut sig = [0u8; 64];
    if sb.len() != 64 {
        return None;
    }
    sig.copy_from_slice(&sb);
    Some(SemEvent {
        id: b32("id")?,
        pubkey: b32("pubkey")?,
        sig,
        kind: v["k"].as_u64()? as u16,
        created_at: v["created_at"].as_u64()?,
        tags: serde_json::from_value(v["tags"].clone()).ok()?,
        content: v["content"].as_str()?.to_string(),
    })
}

pub fn replay(v: &serde_json::Value, rep: &mut Report) {
    if v["kind"] == "mutant" {
        if let Some(m) = sem_from(&v["mutated"]) {
            rep.eval(m.hash(), true);
            if let Ok(Ok(true)) = pocket_verify(&m) {
                rep.finding("tampered-event-verifies:replay", "", v.clone());
            }
        }
    } else if let Some(e) = sem_from(v) {
        let mut rng = Rng::new(3);
        check_event(rep, &mut rng, &e, true);
    }
}
