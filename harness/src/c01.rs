//! C01 — Event JSON parsing is faithful to an independent JSON parser (serde_json).
use crate::jsonref::{extract_event, RefErr};
use crate::sem::*;
use crate::util::*;
use pocket_types::Event;
use serde_json::json;

pub struct Case<'a> {
    pub text: &'a [u8],
    /// offset just past the closing brace when the generator knows it
    pub expected_end: Option<usize>,
    pub truth: Option<&'a SemEvent>,
    /// the text denotes an event within the property's domain: must be accepted
    pub in_domain: bool,
    /// an integer member does not fit its field: must be rejected
    pub must_reject: bool,
    pub class: &'a str,
}

pub fn errkind(e: &pocket_types::Error) -> String {
    let s = format!("{:?}", e.inner);
    s.split(|c: char| !c.is_ascii_alphanumeric()).next().unwrap_or("?").to_string()
}

fn replay_of(c: &Case) -> serde_json::Value {
    json!({"kind":"event-text","class":c.class,"text_hex":hex(c.text),"expected_end":c.expected_end,
           "in_domain":c.in_domain,"must_reject":c.must_reject,
           "text_preview": show(c.text, 400)})
}

/// Run one text through pocket and the oracle.
pub fn check_text(rep: &mut Report, c: &Case) {
    let text = c.text;
    let buflen = 2 * text.len() + 1024;
    // the output buffer has prior contents (a re-used scratch buffer): accessors must not depend on them
    let fill = [0x00u8, 0xFF, 0xAA, 0x55, 0x01][(fnv(text) % 5) as usize];
    let mut g = Guarded::new(buflen, fill, under_miri());
    let res = catch(|| match Event::from_json(text, g.slice()) {
        Ok((consumed, ev)) => Ok((consumed, ev.as_bytes().to_vec())),
        Err(e) => Err((errkind(&e), format!("{e}"))),
    });
    let nontrivial = text.len() >= 204;
    rep.eval(fnv(text), nontrivial);
    if !g.intact() {
        rep.finding("write-outside-output-buffer", "guard zone modified", replay_of(c));
    }
    let res = match res {
        Err(p) => {
            // a panic is neither acceptance nor rejection
            if c.in_domain || c.must_reject {
                rep.finding(
                    &format!("panic:{}:{}@{}", c.class, panic_class(&p.message), p.location),
                    &format!("parser panicked ({}) on {}", p.message, if c.in_domain { "an in-domain text" } else { "a text with an out-of-range integer" }),
                    replay_of(c),
                );
            } else {
                rep.count("panics_on_out_of_domain_texts(C03)");
            }
            return;
        }
        Ok(r) => r,
    };
    match res {
        Err((kind, msg)) => {
            rep.count("rejected");
            if c.must_reject {
                rep.count("out_of_range_rejected");
            }
            if c.in_domain {
                // make sure the oracle agrees the text is in the domain before blaming pocket
                let end = c.expected_end.unwrap_or(text.len());
                match extract_event(&text[..end]) {
                    Ok(ref sem) if Some(sem) == c.truth || c.truth.is_none() => {
                        rep.finding(
                            &format!("rejected-in-domain:{}:{}", c.class, kind),
                            &format!("in-domain event text rejected: {msg}"),
                            replay_of(c),
                        );
                    }
                    other => {
                        rep.count("harness_error_oracle_disagrees_with_generator");
                        rep.notes.push(format!("oracle/generator mismatch in class {}: {:?}", c.class, other.err()));
                    }
                }
            }
        }
        Ok((consumed, bytes)) => {
            rep.count("accepted");
            if consumed > text.len() {
                rep.finding("consumed-beyond-input", &format!("consumed {consumed} > len {}", text.len()), replay_of(c));
                return;
            }
            let ev = match unsafe { Event::delineate(&bytes) } {
                Ok(e) => e,
                Err(e) => {
                    rep.finding("accepted-event-not-delineable", &format!("{e}"), replay_of(c));
                    return;
                }
            };
            if c.must_reject {
                let got = catch(|| (ev.kind().as_u16(), ev.created_at().as_u64())).unwrap_or((0, 0));
                rep.finding(
                    &format!("out-of-range-integer-accepted:{}", c.class),
                    &format!("accepted; kind reads {} and created_at reads {}", got.0, got.1),
                    replay_of(c),
                );
                return;
            }
            if let Some(end) = c.expected_end {
                if c.in_domain && consumed != end {
                    rep.finding(
                        &format!("consumed-length-wrong:{}", c.class),
                        &format!("consumed {consumed}, closing brace ends at {end}"),
                        replay_of(c),
                    );
                }
            }
            // the independent parser on exactly the consumed text
            match extract_event(&text[..consumed]) {
                Ok(sem) => {
                    rep.count("compared_with_independent_parser");
                    if let Some(t) = c.truth {
                        if c.in_domain && *t != sem {
                            rep.count("harness_error_oracle_disagrees_with_generator");
                            rep.notes.push(format!("oracle != generator truth in class {}", c.class));
                            return;
                        }
                    }
                    let diffs = catch(|| sem.diff_pocket(ev));
                    match diffs {
                        Ok(d) if d.is_empty() => {}
                        Ok(d) => rep.finding(
                            &format!("values-differ:{}:{}", c.class, d[0].split(' ').next().unwrap_or("?")),
                            &format!("accessors disagree with the independent parser: {}", d.join("; ")),
                            replay_of(c),
                        ),
                        Err(p) => rep.finding(
                            &format!("accessor-panic:{}@{}", panic_class(&p.message), p.location),
                            &p.message,
                            replay_of(c),
                        ),
                    }
                }
                Err(RefErr::NotJson(_)) => rep.count("accepted_but_not_json(no claim)"),
                Err(RefErr::DupKeys(_)) => rep.count("accepted_dup_keys(no claim)"),
                Err(RefErr::Shape(why)) => {
                    rep.finding(
                        &format!("accepted-valid-json-with-bad-member:{}", why.split(' ').next().unwrap_or("?")),
                        &format!("pocket accepted a valid JSON text whose member the independent parser cannot read as NIP-01: {why}"),
                        replay_of(c),
                    );
                }
            }
        }
    }
}

pub fn base_events() -> (SemEvent, SemEvent) {
    let mut r = Rng::new(0xBA5E);
    let e1 = SemEvent {
        id: r.arr32(),
        pubkey: r.arr32(),
        sig: r.arr64(),
        kind: 30023,
        created_at: 1_681_778_790,
        tags: vec![
            vec!["client".into(), "gos\"sip".into()],
            vec!["p".into(), hex(&r.arr32()), "wss://relay.example/\u{e9}".into()],
            vec![],
            vec!["t".into(), "".into(), "tab\there".into(), "\u{1d11e}".into()],
            vec!["d".into(), "back\\slash/\u{0}\u{1f}".into()],
        ],
        content: "He said \"hi\"\n\\o/ \u{2020} \u{1f600} {\"id\":\"x\"} ]}".into(),
    };
    let e2 = SemEvent {
        id: r.arr32(),
        pubkey: r.arr32(),
        sig: r.arr64(),
        kind: 1,
        created_at: 0,
        tags: vec![],
        content: String::new(),
    };
    (e1, e2)
}

fn with_trailer(rng: &mut Rng, text: &[u8]) -> Vec<u8> {
    let mut t = text.to_vec();
    match rng.below(6) {
        0 => {}
        1 => t.extend_from_slice(b"]"),
        2 => t.extend_from_slice(b" \n"),
        3 => t.extend_from_slice(b",{\"id\":1}"),
        4 => {
            let n = 1 + rng.usize_below(12);
            t.extend_from_slice(&rng.bytes(n))
        }
        _ => t.extend_from_slice(b"}}}\"\\"),
    }
    t
}

fn in_domain_case(rep: &mut Report, rng: &mut Rng, e: &SemEvent, r: &EvRender, class: &str, trailer: bool) {
    let (text, _gaps) = render_event(e, r, rng);
    let end = text.len();
    let full = if trailer { with_trailer(rng, &text) } else { text };
    let in_domain = e.tags_binary_len() <= 65535;
    check_text(
        rep,
        &Case { text: &full, expected_end: Some(end), truth: Some(e), in_domain, must_reject: false, class },
    );
}

pub fn run(args: &Args) -> Report {
    let mut rep = Report::new("C01", &args.leg(), &args.tier(), args.seed());
    let mut rng = Rng::new(args.seed() ^ 0xC01);
    let thorough = args.thorough();
    let sample_only = args.get("sample").is_some();
    let sample_n = args.get_u64("sample", 0);
    let (e1, e2) = base_events();

    if !sample_only {
        // A. every member order, two base events, with and without a trailer
        let perms = permutations(7);
        for (k, p) in perms.iter().enumerate() {
            let mut r = EvRender::plain();
            r.order.copy_from_slice(p);
            in_domain_case(&mut rep, &mut rng, &e1, &r, "order", k % 2 == 0);
            in_domain_case(&mut rep, &mut rng, &e2, &r, "order", k % 2 == 1);
            if thorough {
                r.ws = Ws::Random;
                r.esc = Esc::Random;
                in_domain_case(&mut rep, &mut rng, &e1, &r, "order+ws+esc", true);
            }
        }
        rep.count_n("member_orders_enumerated", perms.len() as u64);
        rep.exhaustive = true;
        rep.sample(json!({"class":"order","orders":perms.len(),"base_events":2,
            "example": show(&render_event(&e1, &{let mut r=EvRender::plain(); r.order=[3,5,4,0,6,1,2]; r}, &mut rng).0, 300)}));

        // B. whitespace: each JSON whitespace byte at each gap, and all gaps at once
        for e in [&e1, &e2] {
            let (_, ngaps) = render_event(e, &EvRender::plain(), &mut rng);
            for gap in 0..ngaps {
                for b in [0x20u8, 0x09, 0x0a, 0x0d] {
                    let mut r = EvRender::plain();
                    r.ws = Ws::OneGap { at: gap, bytes: vec![b] };
                    in_domain_case(&mut rep, &mut rng, e, &r, "whitespace", gap % 2 == 0);
                    rep.count("whitespace_gap_cases");
                }
            }
            for b in [vec![0x20u8], vec![0x09], vec![0x0a], vec![0x0d], vec![0x0d, 0x0a], vec![0x20, 0x09, 0x0a, 0x0d]] {
                for order in [[0, 1, 2, 3, 4, 5, 6], [5, 4, 3, 2, 1, 0, 6], [3, 0, 5, 6, 4, 1, 2]] {
                    let mut r = EvRender::plain();
                    r.order = order;
                    r.ws = Ws::AllGaps(b.clone());
                    in_domain_case(&mut rep, &mut rng, e, &r, "whitespace", true);
                }
            }
        }

        // B2. each JSON whitespace byte at each token gap inside a nested unknown member value
        for (n, val) in nested_gap_texts().into_iter().enumerate() {
            for pos in [0usize, 4, 7] {
                let mut r = EvRender::plain();
                r.unknown = vec![Unknown { pos, key_text: b"\"meta\"".to_vec(), val_text: val.clone() }];
                in_domain_case(&mut rep, &mut rng, if n % 2 == 0 { &e1 } else { &e2 }, &r, "whitespace-in-unknown-member", pos == 4);
                rep.count("whitespace_gap_cases_inside_unknown_members");
            }
        }

        // B3. long runs: whitespace runs of 300 and 70,000 bytes at single gaps; unknown members with a 70,000-character
        //     string value / key, a 400-digit number, a 5,000-element array, a 3,000-member object
        {
            let (_, ngaps) = render_event(&e1, &EvRender::plain(), &mut rng);
            for (n, len) in [(0usize, 300usize), (1, 70_000)] {
                for gap in (0..ngaps).filter(|g| (g + n) % 3 == 0) {
                    let mut r = EvRender::plain();
                    r.ws = Ws::OneGap { at: gap, bytes: (0..len).map(|k| [0x20u8, 0x09, 0x0a, 0x0d][(k + gap) % 4]).collect() };
                    in_domain_case(&mut rep, &mut rng, &e1, &r, "long-whitespace-run", gap % 2 == 0);
                    rep.count("long_run_cases");
                }
            }
            let big_s = format!("\"{}\"", "s".repeat(70_000));
            let big_n = "7".repeat(400);
            let big_a = format!("[{}]", vec!["0"; 5_000].join(","));
            let big_o = format!("{{{}}}", (0..3_000).map(|k| format!("\"k{k}\":null")).collect::<Vec<_>>().join(","));
            for (key, val) in [("\"big\"".to_string(), big_s.clone()), (big_s.clone(), "1".to_string()), ("\"n\"".to_string(), big_n), ("\"arr\"".to_string(), big_a), ("\"obj\"".to_string(), big_o)] {
                for pos in [0usize, 3, 7] {
                    let mut r = EvRender::plain();
                    r.unknown = vec![Unknown { pos, key_text: key.clone().into_bytes(), val_text: val.clone().into_bytes() }];
                    in_domain_case(&mut rep, &mut rng, &e2, &r, "long-unknown-member", pos == 3);
                    rep.count("long_run_cases");
                }
            }
        }

        // C. every ASCII code point and a stratified sample of scalars, in every legal spelling
        let mut scalars: Vec<u32> = (0..128).collect();
        scalars.extend_from_slice(BOUNDARY_SCALARS);
        let extra = if thorough { 3000 } else { 150 };
        for _ in 0..extra {
            scalars.push(rand_scalar(&mut rng) as u32);
        }
        for c in scalars {
            let ch = match char::from_u32(c) {
                Some(ch) => ch,
                None => continue,
            };
            let mut e = e2.clone();
            e.content = format!("a{ch}b{ch}");
            e.tags = vec![vec![format!("{ch}"), format!("x{ch}"), String::new()], vec![format!("{ch}{ch}")]];
            for esc in [Esc::Minimal, Esc::Short, Esc::AllULower, Esc::AllUUpper, Esc::Random] {
                for order in [[0, 1, 2, 3, 4, 5, 6], [5, 0, 1, 2, 3, 6, 4]] {
                    let mut r = EvRender::plain();
                    r.esc = esc;
                    r.order = order;
                    in_domain_case(&mut rep, &mut rng, &e, &r, "escape", c % 2 == 0);
                    rep.count("escape_spelling_cases");
                }
            }
        }

        // C2. every BMP scalar value (U+0000..U+FFFF without the surrogates), as a \uXXXX escape
        //     (quick: lower-case hex, content and one tag string; thorough: also literal and upper-case),
        //     and the astral planes with a stride
        {
            let mut n = 0u64;
            for c in 0u32..=0xFFFF {
                let ch = match char::from_u32(c) {
                    Some(ch) => ch,
                    None => continue,
                };
                let mut e = e2.clone();
                e.content = format!("{ch}");
                e.tags = vec![vec!["t".into(), format!("x{ch}")]];
                let modes: &[Esc] = if thorough { &[Esc::AllULower, Esc::AllUUpper, Esc::Minimal] } else { &[Esc::AllULower] };
                for esc in modes {
                    let mut r = EvRender::plain();
                    r.esc = *esc;
                    in_domain_case(&mut rep, &mut rng, &e, &r, "escape", c % 2 == 0);
                    n += 1;
                }
            }
            let stride = if thorough { 0x101 } else { 0x1001 };
            let mut c = 0x10000u32;
            while c <= 0x10FFFF {
                if let Some(ch) = char::from_u32(c) {
                    let mut e = e2.clone();
                    e.content = format!("{ch}{ch}");
                    in_domain_case(&mut rep, &mut rng, &e, &EvRender::plain(), "escape", true);
                    n += 1;
                }
                c += stride;
            }
            rep.count_n("scalar_sweep_cases", n);
        }

        // D. hex digits of both cases in both nibble positions
        for round in 0..4u8 {
            let mut e = e1.clone();
            for i in 0..32 {
                let hi = (i as u8 + round) % 16;
                let lo = (15 - (i as u8 % 16) + round * 5) % 16;
                e.id[i] = hi << 4 | lo;
                e.pubkey[i] = lo << 4 | hi;
                e.sig[i] = hi << 4 | hi;
                e.sig[32 + i] = lo << 4 | (i as u8 % 16);
            }
            for hc in [HexCase::Lower, HexCase::Upper, HexCase::Mixed] {
                let mut r = EvRender::plain();
                r.hexcase = hc;
                in_domain_case(&mut rep, &mut rng, &e, &r, "hexcase", true);
                rep.count("hexcase_cases");
            }
        }

        // E. unknown members: every value kind, nesting, positions, near-miss keys
        let values: Vec<Vec<u8>> = {
            let mut v: Vec<Vec<u8>> = [
                "null", "true", "false", "0", "-0", "1", "-12", "1.5", "1e5", "1E-5", "\"\"", "\"x\"",
                "\"a\\\"b\"", "\"\\\\\"", "\"}\"", "\"]\"", "\"\\u00e9\\n\"", "[]", "{}", "[1,2,3]",
                "[ ]", "{ }", "[[],[[]],{}]", "{\"a\":1}", "{\"id\":\"zz\",\"tags\":[[\"x\"]]}",
                "{\"a\":{\"b\":[1,{\"c\":null}]}}", "[\"a\",\"b\"]", "[true,false,null]", "123456789012345678901234567890",
                "[1 ,2 , 3]", "{\"a\" : 1 , \"b\" : [ ] }",
            ]
            .iter()
            .map(|s| s.as_bytes().to_vec())
            .collect();
            for d in [1usize, 2, 10, 64, 100, 120, 126] {
                v.push(nested_value(d, false));
                v.push(nested_value(d, true));
            }
            v
        };
        let keys: [&str; 16] = [
            "x", "", "i", "ids", "idx", "kinds", "kin", "contents", "conten", "created_at_", "sigs",
            "pubkeys", "tag", "search", "k\\\"q", "\\u0078y",
        ];
        let mut ucount = 0;
        for (vi, val) in values.iter().enumerate() {
            for pos in 0..=7usize {
                let key = keys[(vi + pos) % keys.len()];
                let mut r = EvRender::plain();
                if (vi + pos) % 3 == 0 {
                    r.order = [5, 4, 3, 2, 1, 0, 6];
                }
                let mut kt = vec![b'"'];
                kt.extend_from_slice(key.as_bytes());
                kt.push(b'"');
                r.unknown = vec![Unknown { pos, key_text: kt, val_text: val.clone() }];
                for trailer in [true, false] {
                    in_domain_case(&mut rep, &mut rng, if vi % 2 == 0 { &e1 } else { &e2 }, &r, "unknown-member", trailer);
                    ucount += 1;
                }
            }
        }
        rep.count_n("unknown_member_cases", ucount);
        rep.sample(json!({"class":"unknown-member","value_shapes":values.len(),"positions":8,
            "example": show(&render_event(&e2, &{let mut r=EvRender::plain(); r.unknown=vec![Unknown{pos:3,key_text:b"\"search\"".to_vec(),val_text:b"{\"a\":[1,null]}".to_vec()}]; r}, &mut rng).0, 260)}));

        // F. integer boundaries
        let kinds_ok = ["0", "1", "255", "256", "65535"];
        let kinds_bad = ["65536", "65537", "99999", "4294967295", "4294967296", "4294967297", "4295032831",
            "18446744073709551616", "18446744073709551617", "99999999999999999999", "340282366920938463463374607431768211457"];
        let times_ok = ["0", "1", "4294967295", "4294967296", "4294967297", "9223372036854775807", "9223372036854775808",
            "18446744073709551614", "18446744073709551615"];
        let times_bad = ["18446744073709551616", "18446744073709551617", "18446744073709551625", "36893488147419103232",
            "99999999999999999999", "100000000000000000000", "340282366920938463463374607431768211456",
            "1000000000000000000000000000000000000000"];
        for order in [[0, 1, 2, 3, 4, 5, 6], [3, 2, 0, 1, 4, 5, 6], [6, 5, 4, 0, 1, 3, 2]] {
            for k in kinds_ok {
                let mut e = e2.clone();
                e.kind = k.parse().unwrap();
                let mut r = EvRender::plain();
                r.order = order;
                r.kind_text = Some(k.to_string());
                in_domain_case(&mut rep, &mut rng, &e, &r, "int-boundary", true);
            }
            for t in times_ok {
                let mut e = e2.clone();
                e.created_at = t.parse().unwrap();
                let mut r = EvRender::plain();
                r.order = order;
                r.created_text = Some(t.to_string());
                in_domain_case(&mut rep, &mut rng, &e, &r, "int-boundary", true);
            }
            for k in kinds_bad {
                let mut r = EvRender::plain();
                r.order = order;
                r.kind_text = Some(k.to_string());
                let (text, _) = render_event(&e2, &r, &mut rng);
                let end = text.len();
                let full = with_trailer(&mut rng, &text);
                check_text(&mut rep, &Case { text: &full, expected_end: Some(end), truth: None, in_domain: false, must_reject: true, class: "kind-out-of-range" });
                rep.count("out_of_range_cases");
            }
            for t in times_bad {
                let mut r = EvRender::plain();
                r.order = order;
                r.created_text = Some(t.to_string());
                let (text, _) = render_event(&e1, &r, &mut rng);
                let end = text.len();
                let full = with_trailer(&mut rng, &text);
                check_text(&mut rep, &Case { text: &full, expected_end: Some(end), truth: None, in_domain: false, must_reject: true, class: "created_at-out-of-range" });
                rep.count("out_of_range_cases");
            }
        }

        // F2. a sweep, not only boundary points: 20..24-digit created_at values with every pair of leading digits
        // (a wrapping accumulator is only caught by particular digit patterns), and kind values over the whole
        // 17..64-bit range
        {
            let mut r2 = Rng::new(0x1A7E);
            let mut bad_times: Vec<String> = vec![];
            for lead in 18u32..=99 {
                let tail: String = (0..18).map(|_| (b'0' + r2.below(10) as u8) as char).collect();
                let v = format!("{lead}{tail}");
                if v.parse::<u128>().unwrap() > u64::MAX as u128 {
                    bad_times.push(v);
                }
            }
            for digits in 21usize..=24 {
                for lead in 1u32..=9 {
                    let tail: String = (0..digits - 1).map(|_| (b'0' + r2.below(10) as u8) as char).collect();
                    bad_times.push(format!("{lead}{tail}"));
                }
            }
            let mut bad_kinds: Vec<String> = vec![];
            for bits in 16u32..=66 {
                let base: u128 = 1u128 << bits;
                for add in [0u128, 1, 255, 65535] {
                    bad_kinds.push(format!("{}", base + add));
                }
                bad_kinds.push(format!("{}", base + (r2.next_u64() as u128 % base)));
            }
            for (i, t) in bad_times.iter().enumerate() {
                let mut r = EvRender::plain();
                r.order = [[0, 1, 2, 3, 4, 5, 6], [3, 2, 0, 1, 4, 5, 6], [6, 5, 4, 0, 1, 3, 2]][i % 3];
                r.created_text = Some(t.clone());
                let (text, _) = render_event(&e1, &r, &mut rng);
                let end = text.len();
                let full = with_trailer(&mut rng, &text);
                check_text(&mut rep, &Case { text: &full, expected_end: Some(end), truth: None, in_domain: false, must_reject: true, class: "created_at-out-of-range" });
                rep.count("out_of_range_cases");
            }
            for (i, k) in bad_kinds.iter().enumerate() {
                let mut r = EvRender::plain();
                r.order = [[0, 1, 2, 3, 4, 5, 6], [3, 2, 0, 1, 4, 5, 6], [6, 5, 4, 0, 1, 3, 2]][i % 3];
                r.kind_text = Some(k.clone());
                let (text, _) = render_event(&e2, &r, &mut rng);
                let end = text.len();
                let full = with_trailer(&mut rng, &text);
                check_text(&mut rep, &Case { text: &full, expected_end: Some(end), truth: None, in_domain: false, must_reject: true, class: "kind-out-of-range" });
                rep.count("out_of_range_cases");
            }
        }

        // G. tag sections up to the 65,535-byte limit
        for target in [65535usize, 65534, 65000, 40000] {
            // one tag with one long string: 4 + 2 + 2 + 2 + n = target
            let mut e = e2.clone();
            e.tags = vec![vec!["x".repeat(target - 10)]];
            assert_eq!(e.tags_binary_len(), target);
            in_domain_case(&mut rep, &mut rng, &e, &EvRender::plain(), "big-tags", true);
            // many small tags: each ["a"] costs 2 + 2 + 2 + 1 = 7
            let n = (target - 4) / 7;
            let mut e = e2.clone();
            e.tags = (0..n).map(|_| vec!["a".to_string()]).collect();
            let rest = target - e.tags_binary_len();
            if rest >= 1 {
                let l = e.tags.len();
                e.tags[l - 1][0] = "a".repeat(1 + rest);
            }
            let mut r = EvRender::plain();
            r.order = [5, 0, 1, 2, 3, 4, 6];
            in_domain_case(&mut rep, &mut rng, &e, &r, "big-tags", false);
            rep.count("big_tag_section_cases");
        }
    }

    // H. random combinations of everything
    let n_random = if sample_only { sample_n } else if thorough { 300_000 } else { 6_000 };
    for k in 0..n_random {
        let e = rand_event(&mut rng);
        let r = EvRender::random(&mut rng);
        let class = if r.unknown.is_empty() { "random" } else { "random+unknown" };
        let (text, _) = render_event(&e, &r, &mut rng);
        let end = text.len();
        let full = with_trailer(&mut rng, &text);
        check_text(&mut rep, &Case { text: &full, expected_end: Some(end), truth: Some(&e), in_domain: true, must_reject: false, class });
        if k < 2 {
            rep.sample(json!({"class":class,"text":show(&full, 500)}));
        }
        // I. structured and byte-level mutations of the same text: only the
        //    "accepted valid JSON => same values" clause applies
        if !sample_only || k % 3 == 0 {
            let m = mutate(&mut rng, &text);
            check_text(&mut rep, &Case { text: &m, expected_end: None, truth: None, in_domain: false, must_reject: false, class: "mutated" });
        }
    }
    rep
}

/// Mutations that frequently keep the text valid JSON while changing its meaning
fn mutate(rng: &mut Rng, text: &[u8]) -> Vec<u8> {
    let mut t = text.to_vec();
    let find = |t: &[u8], pat: &[u8]| t.windows(pat.len()).position(|w| w == pat);
    match rng.below(12) {
        0 => {
            // kind as string / float / negative
            if let Some(p) = find(&t, b"\"kind\"") {
                let mut q = p + 6;
                while q < t.len() && !t[q].is_ascii_digit() {
                    q += 1;
                }
                let mut e = q;
                while e < t.len() && t[e].is_ascii_digit() {
                    e += 1;
                }
                let rep: &[u8] = *rng.pick(&[&b"\"1\""[..], b"1.0", b"-1", b"1e2", b"[1]", b"null", b"01", b"1.", b"70000"]);
                let _ = t.splice(q..e, rep.iter().cloned());
            }
        }
        1 => {
            if let Some(p) = find(&t, b"\"created_at\"") {
                let mut q = p + 12;
                while q < t.len() && !t[q].is_ascii_digit() {
                    q += 1;
                }
                let mut e = q;
                while e < t.len() && t[e].is_ascii_digit() {
                    e += 1;
                }
                let rep: &[u8] = *rng.pick(&[&b"\"5\""[..], b"5.5", b"-5", b"5e3", b"true", b"{}", b"18446744073709551616", b"1E400"]);
                let _ = t.splice(q..e, rep.iter().cloned());
            }
        }
        2 => {
            // tags of the wrong JSON type: rename the original member and insert a replacement
            if let Some(p) = find(&t, b"\"tags\"") {
                let rep: &[u8] = *rng.pick(&[&b"[[1]]"[..], b"[\"a\"]", b"[[\"a\",null]]", b"[[[\"a\"]]]", b"{}", b"[{}]", b"[[\"a\"],5]", b"[[],[\"\\ud83d\\ude00\"]]", b"null", b"\"[]\""]);
                let _ = t.splice(p..p + 6, b"\"tagz\"".iter().cloned());
                let ins = [b"\"tags\":".as_slice(), rep, b","].concat();
                let _ = t.splice(p..p, ins.into_iter());
            }
        }
        3 => {
            // duplicate a whole member somewhere else
            if let Some(p) = find(&t, b"\"kind\"") {
                let mut e = p + 6;
                while e < t.len() && t[e] != b',' && t[e] != b'}' {
                    e += 1;
                }
                let member = t[p..e].to_vec();
                if let Some(b) = t.iter().position(|c| *c == b'{') {
                    let ins = [member.as_slice(), b","].concat();
                    let _ = t.splice(b + 1..b + 1, ins.into_iter());
                }
            }
        }
        4 => {
            // drop one member entirely (valid JSON, missing field)
            let names: [&[u8]; 3] = [b"\"kind\"", b"\"created_at\"", b"\"content\""];
            let name = *rng.pick(&names);
            if let Some(p) = find(&t, name) {
                let _ = t.splice(p + 1..p + 2, b"_".iter().cloned());
            }
        }
        5 => {
            // hex fields of wrong length / non-hex
            if let Some(p) = find(&t, b"\"id\"") {
                let mut q = p + 4;
                while q < t.len() && t[q] != b'"' {
                    q += 1;
                }
                if q + 10 < t.len() {
                    match rng.below(3) {
                        0 => t[q + 3] = b'g',
                        1 => {
                            let _ = t.remove(q + 3);
                        }
                        _ => t.insert(q + 3, b'0'),
                    }
                }
            }
        }
        6 | 7 => {
            // single random byte change
            if !t.is_empty() {
                let i = rng.usize_below(t.len());
                t[i] = *rng.pick(&[b'"', b'\\', b',', b':', b'{', b'}', b'[', b']', b' ', b'0', b'a', 0x7f, 0x80, 0xff, 0x00]);
            }
        }
        8 => {
            // swap two members' values? (swap kind and created_at numbers)
            let a = find(&t, b"\"kind\"");
            if let Some(p) = a {
                let _ = t.splice(p..p + 6, b"\"created_at\"".iter().cloned());
                if let Some(p2) = find(&t[p + 12..], b"\"created_at\"") {
                    let p2 = p2 + p + 12;
                    let _ = t.splice(p2..p2 + 12, b"\"kind\"".iter().cloned());
                } else if let Some(p2) = find(&t[..p], b"\"created_at\"") {
                    let _ = t.splice(p2..p2 + 12, b"\"kind\"".iter().cloned());
                }
            }
        }
        9 => {
            // truncate
            let n = rng.usize_below(t.len() + 1);
            t.truncate(n);
        }
        10 => {
            // trailing comma / missing comma
            if let Some(p) = t.iter().rposition(|c| *c == b'}') {
                t.insert(p, b',');
            }
        }
        _ => {
            // wrap: array around, or nested object
            t.insert(0, b'[');
            t.push(b']');
        }
    }
    t
}

pub fn replay(v: &serde_json::Value, rep: &mut Report) {
    let text = unhex(v["text_hex"].as_str().unwrap_or("")).unwrap_or_default();
    let class = v["class"].as_str().unwrap_or("replay").to_string();
    let end = v["expected_end"].as_u64().map(|x| x as usize);
    let in_domain = v["in_domain"].as_bool().unwrap_or(false);
    let must_reject = v["must_reject"].as_bool().unwrap_or(false);
    let truth = if in_domain { extract_event(&text[..end.unwrap_or(text.len())]).ok() } else { None };
    check_text(rep, &Case { text: &text, expected_end: end, truth: truth.as_ref(), in_domain, must_reject, class: &class });
}
