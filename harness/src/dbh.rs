//! History engine for the pocket-db monitors: executes operations against a real `Store`,
//! keeps the reference model in step, and runs the online monitors after every step.
#![allow(dead_code)]

use crate::model::*;
use crate::sem::*;
use crate::util::*;
use pocket_db::{InnerError, ScreenResult, Store};
use pocket_types::{Addr, Event, Id, Kind, Pubkey};
use serde_json::json;
use std::collections::{BTreeMap, BTreeSet, HashMap};
use std::path::PathBuf;
use std::rc::Rc;

pub const TABLES: [&str; 3] = ["xt_one", "xt_two", "xt_three"];

pub fn workdir() -> PathBuf {
    let base = std::env::var("PVMON_WORK").unwrap_or_else(|_| format!("/tmp/pvmon-{}", std::process::id()));
    let p = PathBuf::from(base);
    let _ = std::fs::create_dir_all(&p);
    p
}

pub fn classify_err(e: &pocket_db::Error) -> ErrClass {
    match &e.inner {
        InnerError::Duplicate => ErrClass::Duplicate,
        InnerError::Deleted => ErrClass::Deleted,
        InnerError::Replaced => ErrClass::Replaced,
        InnerError::InvalidDelete => ErrClass::InvalidDelete,
        other => ErrClass::Other(format!("{other}")),
    }
}

pub fn to_addr(a: &AddrKey) -> Addr {
    Addr { kind: Kind::from_u16(a.kind), author: Pubkey::from_bytes(a.author), d: a.d.clone() }
}

fn id32(id: Id) -> Id32 {
    let mut a = [0u8; 32];
    a.copy_from_slice(id.as_slice());
    a
}

/// What kind of step just happened (for attributing divergences to properties)
#[derive(Clone, Copy, Debug, PartialEq, Eq)]
pub enum OpKind {
    Open,
    StoreOkPlain,
    StoreOkAddr,
    StoreOkDel,
    StoreErr,
    Remove,
    Vanish,
    Reopen,
    Rebuild,
    Table,
}

#[derive(Clone, Copy, Debug, PartialEq, Eq)]
pub enum Aspect {
    Retr,
    Bytes,
    Marker,
    Holder,
    Stats,
    Query,
    Table,
}

#[derive(Clone, Debug, Default)]
pub struct Flags {
    /// every other vanish is preceded by storing the very request event that is then handed to `vanish` (as a relay
    /// does that records what it accepts): the request is authored by the vanishing key and goes with the rest
    pub vanish_stores_request: bool,
    /// compare the store with the model after every step (ids, markers, holders, stats)
    pub verify_each_step: bool,
    /// re-read every offset ever returned after every step (C04)
    pub reread_offsets: bool,
    /// snapshot before every store and compare when it fails (C12)
    pub snapshot_failed_stores: bool,
    /// snapshot before/after reopen and rebuild (C16)
    pub snapshot_lifecycle: bool,
    /// after every step, run the filters derived from every event (C17)
    pub derived_filters: bool,
    /// C09: at most one retrievable event per address, neighbours untouched
    pub address_invariant: bool,
    /// C10: victims of other authors untouched by any kind-5 request
    pub foreign_delete_guard: bool,
    /// C11: deletion times never decrease
    pub marker_monotonic: bool,
}

pub struct QueryResult {
    pub ids: Vec<Id32>,
    pub times: Vec<u64>,
    pub bytes_ok: bool,
    pub redacted: bool,
}

pub enum QRes {
    Ok(QueryResult),
    Scraper,
    Err(String),
    Panic(PanicInfo),
}

pub fn screen_of(mode: u8, e: &SemEvent) -> u8 {
    match mode {
        0 => 0,
        1 => e.id[5] % 3,
        2 => 2,
        3 => 1,
        _ => if e.id[6] % 2 == 0 { 0 } else { 2 },
    }
}

/// A concrete operation, recorded so that another process can repeat the history
#[derive(Clone, Debug)]
pub enum COp {
    Store(Rc<Ev>),
    Remove(Id32),
    Vanish(Id32),
}

pub struct Eng<'r> {
    pub ops: Vec<COp>,
    pub rep: &'r mut Report,
    pub prop: &'static str,
    pub cmd: String,
    pub seed: u64,
    pub index: u64,
    pub dir: PathBuf,
    pub store: Option<Store>,
    pub tables: Vec<&'static str>,
    pub model: Model,
    pub ids: BTreeSet<Id32>,
    pub addrs: BTreeSet<AddrKey>,
    pub all: Vec<Rc<Ev>>,
    pub by_id: HashMap<Id32, Rc<Ev>>,
    pub offsets: Vec<(u32, u64, Rc<Ev>)>,
    pub offset_set: BTreeSet<(u32, u64)>,
    pub generation: u32,
    pub removed: BTreeSet<Id32>,
    pub foreign_named_ids: BTreeSet<Id32>,
    pub foreign_named_addrs: BTreeSet<AddrKey>,
    pub marker_seen: BTreeMap<AddrKey, u64>,
    pub log: Vec<String>,
    pub aborted: bool,
    pub flags: Flags,
    pub steps: u64,
    pub growths: u64,
    pub reopens: u64,
    pub rebuilds: u64,
    pub last_map_len: u64,
    pub sigbits: u64,
    /// report every disagreement under the property being checked, with this signature prefix
    /// (used by the crash and concurrency monitors, which re-use the sequential monitors)
    pub attribute_all: Option<String>,
    /// at this step count the history continues above a large offset (see `jump_map`); None = never
    pub jump_at: Option<u64>,
    jumping: bool,
    pending_jump: Option<u64>,
}

impl<'r> Eng<'r> {
    pub fn new(rep: &'r mut Report, prop: &'static str, cmd: &str, seed: u64, index: u64, flags: Flags, ntables: usize) -> Eng<'r> {
        let dir = workdir().join(format!("h{}_{}", seed, index));
        let _ = std::fs::remove_dir_all(&dir);
        std::fs::create_dir_all(&dir).unwrap();
        let mut e = Eng {
            ops: vec![],
            rep,
            prop,
            cmd: cmd.to_string(),
            seed,
            index,
            dir,
            store: None,
            tables: TABLES[..ntables].to_vec(),
            model: Model::new(),
            ids: BTreeSet::new(),
            addrs: BTreeSet::new(),
            all: vec![],
            by_id: HashMap::new(),
            offsets: vec![],
            offset_set: BTreeSet::new(),
            generation: 0,
            removed: BTreeSet::new(),
            foreign_named_ids: BTreeSet::new(),
            foreign_named_addrs: BTreeSet::new(),
            marker_seen: BTreeMap::new(),
            log: vec![],
            aborted: false,
            flags,
            steps: 0,
            growths: 0,
            reopens: 0,
            rebuilds: 0,
            last_map_len: 0,
            sigbits: 0,
            attribute_all: None,
            jump_at: if index % 8 == 5 { Some(6 + index / 8 % 9) } else { None },
            jumping: false,
            pending_jump: None,
        };
        for t in e.tables.clone() {
            let _ = e.model.x.insert(t.to_string(), BTreeMap::new());
        }
        e.open_store("open");
        e
    }

    /// Attach to an existing store directory with a given model (used after a crash)
    #[allow(clippy::too_many_arguments)]
    pub fn attach(rep: &'r mut Report, prop: &'static str, cmd: &str, seed: u64, index: u64, flags: Flags, dir: PathBuf, model: Model, events: &[Rc<Ev>], offsets: Vec<(u32, u64, Rc<Ev>)>) -> Eng<'r> {
        let mut e = Eng {
            ops: vec![],
            rep,
            prop,
            cmd: cmd.to_string(),
            seed,
            index,
            dir,
            store: None,
            tables: vec![],
            model,
            ids: BTreeSet::new(),
            addrs: BTreeSet::new(),
            all: vec![],
            by_id: HashMap::new(),
            offsets: vec![],
            offset_set: BTreeSet::new(),
            generation: 0,
            removed: BTreeSet::new(),
            foreign_named_ids: BTreeSet::new(),
            foreign_named_addrs: BTreeSet::new(),
            marker_seen: BTreeMap::new(),
            log: vec![],
            aborted: false,
            flags,
            steps: 0,
            growths: 0,
            reopens: 0,
            rebuilds: 0,
            last_map_len: 0,
            sigbits: 0,
            attribute_all: None,
            jump_at: None,
            jumping: false,
            pending_jump: None,
        };
        for ev in events {
            e.register(ev);
        }
        for (g, o, ev) in offsets {
            let _ = e.offset_set.insert((g, o));
            e.offsets.push((g, o, ev));
        }
        e.open_store("open-after-crash");
        e
    }

    /// Close the store for real (LMDB environment included; a plain drop leaves it cached in heed)
    pub fn close_store(&mut self) {
        if let Some(s) = self.store.take() {
            if let Ok(Err(e)) = catch(move || s.verif_close()) {
                self.rep.notes.push(format!("verif_close failed: {e}"));
            }
        }
    }

    pub fn finish(&mut self) {
        self.close_store();
        let _ = std::fs::remove_dir_all(&self.dir);
    }

    pub fn replay_payload(&self) -> serde_json::Value {
        json!({"kind":"history","cmd":self.cmd,"seed":self.seed,"index":self.index,
               "history_tail": self.log.iter().rev().take(30).rev().cloned().collect::<Vec<_>>()})
    }

    /// Record a disagreement. Reported as a violation only when it concerns the property under check.
    pub fn flag(&mut self, props: &[&'static str], signature: &str, detail: &str) {
        if let Some(prefix) = self.attribute_all.clone() {
            let d = format!("{detail}\n  history (last steps): {}", self.log.iter().rev().take(10).rev().cloned().collect::<Vec<_>>().join(" | "));
            let rp = self.replay_payload();
            self.rep.finding(&format!("{prefix}{signature}"), &d, rp);
            return;
        }
        if props.contains(&self.prop) {
            let d = format!("{detail}\n  history (last steps): {}", self.log.iter().rev().take(14).rev().cloned().collect::<Vec<_>>().join(" | "));
            let rp = self.replay_payload();
            self.rep.finding(signature, &d, rp);
        } else {
            self.rep.count(&format!("divergence_of_other_property:{}", props.join("+")));
        }
    }

    pub fn abort(&mut self, why: &str) {
        if !self.aborted {
            self.aborted = true;
            self.rep.count(&format!("histories_abandoned:{why}"));
        }
    }

    fn open_store(&mut self, what: &str) {
        let dir = self.dir.clone();
        let tables = self.tables.clone();
        match catch(|| Store::new(&dir, tables)) {
            Ok(Ok(s)) => self.store = Some(s),
            Ok(Err(e)) if self.jumping => {
                // the doctored map was refused: not a state the store produced itself, so no verdict
                self.rep.count(&format!("large_offset_jump_refused:{}", format!("{:?}", classify_err(&e))));
                self.abort("jump-refused");
            }
            Ok(Err(e)) => {
                self.flag(&["C16", "C13", "C04"], &format!("{what}-failed"), &format!("Store::new failed: {e}"));
                self.abort("open-failed");
            }
            Err(p) => {
                self.flag(&["C16", "C13", "C04"], &format!("{what}-panic@{}", p.location), &p.message);
                self.abort("open-panic");
            }
        }
        self.note_map_len();
    }

    fn note_map_len(&mut self) {
        if let Ok(m) = std::fs::metadata(self.dir.join("event.map")) {
            let l = m.len();
            if self.last_map_len != 0 && l > self.last_map_len {
                self.growths += 1;
            }
            self.last_map_len = l;
        }
    }

    pub fn register(&mut self, ev: &Rc<Ev>) {
        if !self.by_id.contains_key(&ev.sem.id) {
            let _ = self.by_id.insert(ev.sem.id, ev.clone());
            self.all.push(ev.clone());
        }
        let _ = self.ids.insert(ev.sem.id);
        if let Some(a) = addr_of(&ev.sem) {
            let _ = self.addrs.insert(a);
        }
        for t in deletion_targets(&ev.sem) {
            match t {
                Target::Id(id) => {
                    let _ = self.ids.insert(id);
                }
                Target::Addr(a) => {
                    let _ = self.addrs.insert(a);
                }
            }
        }
    }

    /// Addresses mentioned for the first time: what the store says about them before the
    /// operation must already agree with the model (nothing was ever stored or deleted there).
    fn precheck_new_addresses(&mut self, ev: &Rc<Ev>) {
        let mut new_addrs: Vec<AddrKey> = vec![];
        if let Some(a) = addr_of(&ev.sem) {
            new_addrs.push(a);
        }
        for t in deletion_targets(&ev.sem) {
            if let Target::Addr(a) = t {
                new_addrs.push(a);
            }
        }
        new_addrs.retain(|a| !self.addrs.contains(a) && a.d.len() <= 400);
        let store = match self.store.as_ref() {
            Some(s) => s,
            None => return,
        };
        let mut bad: Vec<(Vec<&'static str>, String, String)> = vec![];
        for a in new_addrs {
            let pa = to_addr(&a);
            let want = self.model.holder(&a).map(|e| e.sem.id);
            let got = if is_replaceable(a.kind) {
                catch(|| store.find_replaceable_event(pa.author, pa.kind).map(|o| o.map(|e| id32(e.id())))).ok().and_then(|r| r.ok())
            } else if is_param(a.kind) {
                catch(|| store.find_parameterized_replaceable_event(&pa).map(|o| o.map(|e| id32(e.id())))).ok().and_then(|r| r.ok())
            } else {
                None
            };
            if let Some(g) = got {
                if g != want {
                    let who = g.and_then(|i| self.by_id.get(&i).map(|e| format!("{} (its own address: {})", e.short(), addr_of(&e.sem).map(|x| x.short()).unwrap_or_default()))).unwrap_or_default();
                    bad.push((vec!["C09"], "lookup-at-other-address-returns-event".into(), format!("lookup at {} returns {who}; nothing was stored at that address", a.short())));
                }
            }
            if let Ok(Ok(t)) = catch(|| store.naddr_is_deleted_asof(&pa).map(|o| o.map(|t| t.as_u64()))) {
                let want = self.model.a.get(&a).copied();
                if t != want {
                    bad.push((vec!["C11", "C16"], "marker-at-never-deleted-address".into(), format!("naddr_is_deleted_asof({}) = {t:?}, expected {want:?}", a.short())));
                }
            }
        }
        for (props, sig, detail) in bad {
            self.flag(&props, &sig, &detail);
            self.abort("precheck");
        }
    }

    // ------------------------------------------------------------------ operations

    pub fn store(&mut self, ev: &Rc<Ev>) -> Option<Outcome> {
        if self.aborted || self.store.is_none() {
            return None;
        }
        self.precheck_new_addresses(ev);
        if self.aborted {
            return None;
        }
        self.register(ev);
        self.ops.push(COp::Store(ev.clone()));
        self.steps += 1;
        let before = if self.flags.snapshot_failed_stores { Some(self.snap()) } else { None };
        let guard_before = if self.flags.foreign_delete_guard && ev.sem.kind == 5 { Some(self.victim_view(&ev.sem.pubkey)) } else { None };
        let store = self.store.as_ref().unwrap();
        let bytes = ev.bytes.clone();
        // informational only (no property lists it): bytes of the event map consumed by a store that then fails
        let map_bytes_before = if before.is_some() { store.stats().ok().map(|s| s.event_bytes) } else { None };
        let res = catch(|| {
            // (an OwnedEvent wraps the bytes directly: the harness does not go through the library's
            // own delineation to hand an event in)
            let e = pocket_types::OwnedEvent(bytes.clone());
            store.store_event(&e)
        });
        let out = match res {
            Ok(Ok(off)) => Outcome::Ok(off),
            Ok(Err(e)) => Outcome::Err(classify_err(&e)),
            Err(p) => {
                self.log.push(format!("store {} -> PANIC", ev.short()));
                let prop = self.prop;
                self.flag(&[prop], &format!("store-panic:{}@{}", panic_class(&p.message), p.location), &p.message);
                self.abort("store-panic");
                return None;
            }
        };
        self.log.push(format!("store {} [{}] -> {}", ev.short(), self.model.reasons(&ev.sem).describe(), out.short()));
        if let (Some(b), Outcome::Err(c)) = (map_bytes_before, &out) {
            if let Some(a) = self.store.as_ref().and_then(|s| s.stats().ok()).map(|s| s.event_bytes) {
                let class = match c { ErrClass::Other(_) => "Other".to_string(), c => format!("{c:?}") };
                self.rep.count(&format!("info_failed_store_{}:{}", if a != b { "consumed_event_map_bytes" } else { "left_event_map_untouched" }, class));
            }
        }
        self.note_map_len();
        // outcome rules
        let named = self.foreign_named_ids.contains(&ev.sem.id) || addr_of(&ev.sem).map(|a| self.foreign_named_addrs.contains(&a)).unwrap_or(false);
        let verdicts = self.model.judge_store(&ev.sem, &out, named, self.removed.contains(&ev.sem.id));
        let rs = self.model.reasons(&ev.sem);
        let mut cannot_follow = false;
        for v in verdicts {
            self.flag(&v.props, &v.signature, &v.detail);
            if out.is_ok() {
                cannot_follow = true;
            }
        }
        self.rep.count(&format!("store_outcome:{}:{}", rs.describe(), match &out { Outcome::Ok(_) => "Ok".to_string(), Outcome::Err(ErrClass::Other(_)) => "Err(Other)".into(), Outcome::Err(c) => format!("{c:?}") }));
        let opk;
        match &out {
            Outcome::Ok(off) => {
                if !self.offset_set.insert((self.generation, *off)) {
                    self.flag(&["C04"], "offset-returned-twice", &format!("offset {off} was returned by two successful stores into the same file"));
                }
                self.offsets.push((self.generation, *off, ev.clone()));
                self.model.apply_store(ev);
                // C04, directly: a stored non-ephemeral event is found by id, byte for byte, right away
                if !is_ephemeral(ev.sem.kind) && self.model.r.contains_key(&ev.sem.id) {
                    let store = self.store.as_ref().unwrap();
                    let got = catch(|| store.get_event_by_id(Id::from_bytes(ev.sem.id)).map(|o| o.map(|e| e.as_bytes().to_vec())));
                    match got {
                        Ok(Ok(Some(b))) if b == ev.bytes => {}
                        Ok(Ok(Some(_))) => self.flag(&["C04"], "stored-event-reads-back-different-by-id", &format!("event {} (kind {})", ev.short(), ev.sem.kind)),
                        Ok(Ok(None)) => self.flag(&["C04"], "stored-event-not-found-by-id", &format!("store_event returned Ok({off}) for the non-ephemeral event {} (kind {}) but get_event_by_id finds nothing", ev.short(), ev.sem.kind)),
                        Ok(Err(e)) => self.flag(&["C04"], "stored-event-lookup-error", &format!("event {}: {e}", ev.short())),
                        Err(p) => self.flag(&["C04"], "stored-event-lookup-panic", &p.message),
                    }
                }
                let _ = self.removed.remove(&ev.sem.id);
                opk = if ev.sem.kind == 5 { OpKind::StoreOkDel } else if addr_of(&ev.sem).is_some() { OpKind::StoreOkAddr } else { OpKind::StoreOkPlain };
            }
            Outcome::Err(_) => {
                opk = OpKind::StoreErr;
                if rs.foreign {
                    for t in deletion_targets(&ev.sem) {
                        match t {
                            Target::Id(id) => {
                                let _ = self.foreign_named_ids.insert(id);
                            }
                            Target::Addr(a) => {
                                let _ = self.foreign_named_addrs.insert(a);
                            }
                        }
                    }
                }
                if let Some(b) = before {
                    let after = self.snap();
                    if after != b {
                        let diff = snap_diff(&b, &after);
                        self.flag(&["C12"], &format!("failed-store-changed-state:{}", diff.first().map(|d| d.0.split(':').next().unwrap_or("?").to_string()).unwrap_or_default()),
                            &format!("store returned {} yet the observable state changed: {}", out.short(), diff.iter().take(6).map(|d| format!("{} {}->{}", d.0, d.1, d.2)).collect::<Vec<_>>().join("; ")));
                        cannot_follow = true;
                    }
                    self.rep.count("failed_stores_snapshotted");
                }
            }
        }
        if let Some(gb) = guard_before {
            let ga = self.victim_view(&ev.sem.pubkey);
            if ga != gb {
                let diff = snap_diff(&gb, &ga);
                self.flag(&["C10"], &format!("deletion-request-affected-other-author:{}", diff.first().map(|d| d.0.split(':').next().unwrap_or("?").to_string()).unwrap_or_default()),
                    &format!("kind-5 request by {} ({}) changed another author's events/markers: {}", hex(&ev.sem.pubkey[..2]), out.short(),
                        diff.iter().take(6).map(|d| format!("{} {}->{}", d.0, d.1, d.2)).collect::<Vec<_>>().join("; ")));
            }
            self.rep.count("foreign_guard_checks");
        }
        if cannot_follow {
            self.abort("model-cannot-follow");
            return Some(out);
        }
        self.after_step(opk);
        Some(out)
    }

    pub fn remove(&mut self, id: &Id32) {
        if self.aborted || self.store.is_none() {
            return;
        }
        self.steps += 1;
        self.ops.push(COp::Remove(*id));
        let _ = self.ids.insert(*id);
        let store = self.store.as_ref().unwrap();
        let r = catch(|| store.remove_event(Id::from_bytes(*id)));
        self.log.push(format!("remove {} [{}] -> {}", hex(&id[..3]), if self.model.r.contains_key(id) { "present" } else { "absent" },
            match &r { Ok(Ok(())) => "Ok".to_string(), Ok(Err(e)) => format!("Err({e})"), Err(p) => format!("PANIC {}", p.message) }));
        match r {
            Ok(Ok(())) => {
                if self.model.r.contains_key(id) {
                    let _ = self.removed.insert(*id);
                    self.rep.count("removed_present");
                } else {
                    self.rep.count("removed_absent");
                }
                self.model.apply_remove(id);
            }
            Ok(Err(e)) => {
                self.flag(&["C18"], "remove_event-error", &format!("{e}"));
                self.abort("remove-error");
                return;
            }
            Err(p) => {
                let prop = self.prop;
                self.flag(&[prop], &format!("remove-panic@{}", p.location), &p.message);
                self.abort("remove-panic");
                return;
            }
        }
        self.after_step(OpKind::Remove);
    }

    pub fn vanish(&mut self, pk: &Id32) {
        if self.aborted || self.store.is_none() {
            return;
        }
        // vanish takes an event (the request); only its pubkey is used
        let mut req = SemEvent { id: [0xEE; 32], pubkey: *pk, sig: [0; 64], kind: 62, created_at: 1, tags: vec![], content: String::new() };
        if self.flags.vanish_stores_request && self.steps % 2 == 0 {
            let h = fnv_parts(&[&pk[..], &self.steps.to_le_bytes()]);
            for (i, b) in req.id.iter_mut().enumerate() {
                *b = (h >> (8 * (i % 8))) as u8 ^ (i as u8).wrapping_mul(37);
            }
            if let Some(ev) = Ev::new(req.clone()) {
                let _ = self.store(&ev);
                self.rep.count("vanish_requests_stored_before_vanish");
                if self.aborted || self.store.is_none() {
                    return;
                }
            }
        }
        self.steps += 1;
        self.ops.push(COp::Vanish(*pk));
        let o = req.to_owned().unwrap();
        let targets = self.model.vanish_targets(pk);
        let store = self.store.as_ref().unwrap();
        let r = catch(|| store.vanish(&o));
        self.log.push(format!("vanish {} [{} targets] -> {}", hex(&pk[..2]), targets.len(),
            match &r { Ok(Ok(())) => "Ok".to_string(), Ok(Err(e)) => format!("Err({e})"), Err(p) => format!("PANIC {}", p.message) }));
        match r {
            Ok(Ok(())) => {
                for t in targets.iter() {
                    let _ = self.removed.insert(*t);
                }
                self.rep.count_n("vanish_targets", targets.len() as u64);
                self.model.apply_vanish(pk);
            }
            Ok(Err(e)) => {
                self.flag(&["C18"], "vanish-error", &format!("{e}"));
                self.abort("vanish-error");
                return;
            }
            Err(p) => {
                let prop = self.prop;
                self.flag(&[prop], &format!("vanish-panic@{}", p.location), &p.message);
                self.abort("vanish-panic");
                return;
            }
        }
        self.after_step(OpKind::Vanish);
    }

    /// Continue the history above a large offset: close, make the map file sparse-large with its end marker a few
    /// bytes below 2^31 / 2^32 / 2^33 (so that the next events straddle and pass that value), reopen. Equivalent to a
    /// store that already holds that many bytes of (unindexed, e.g. ephemeral or removed) events; every oracle of the
    /// history keeps running, so an offset narrowed anywhere (an index value, a cast) shows as a wrong read or result.
    pub fn jump_map(&mut self) {
        if self.aborted || self.store.is_none() {
            return;
        }
        let base: u64 = [1u64 << 31, 1 << 32, 1 << 32, 1 << 33][(self.index / 8 % 4) as usize];
        self.pending_jump = Some(base - 24 - self.index / 32 % 8);
        self.reopen(false);
        self.pending_jump = None;
        self.jumping = false;
    }

    fn doctor_map(&mut self, end: u64) -> bool {
        use std::os::unix::fs::FileExt;
        let path = self.dir.join("event.map");
        let f = match std::fs::OpenOptions::new().read(true).write(true).open(&path) {
            Ok(f) => f,
            Err(_) => return false,
        };
        let mut hdr = [0u8; 8];
        if f.read_exact_at(&mut hdr, 0).is_err() || u64::from_le_bytes(hdr) >= end {
            return false;
        }
        let newlen = (end + 24 + 8) / (4 << 20) * (4 << 20) + (4 << 20);
        if f.set_len(newlen).is_err() {
            return false;
        }
        if f.write_all_at(&end.to_le_bytes(), 0).is_err() || f.sync_all().is_err() {
            return false;
        }
        true
    }

    pub fn reopen(&mut self, more_tables: bool) {
        if self.aborted {
            return;
        }
        self.steps += 1;
        let before = if self.flags.snapshot_lifecycle { Some(self.snap()) } else { None };
        self.close_store();
        if let Some(end) = self.pending_jump {
            if self.doctor_map(end) {
                self.jumping = true;
                self.rep.count("histories_continued_above_a_large_offset");
                self.log.push(format!("map end marker moved to {end} (sparse file)"));
            } else {
                self.rep.count("large_offset_jump_not_possible");
            }
        }
        if more_tables && self.tables.len() < TABLES.len() {
            let t = TABLES[self.tables.len()];
            self.tables.push(t);
            let _ = self.model.x.insert(t.to_string(), BTreeMap::new());
        }
        self.log.push(format!("reopen (tables {})", self.tables.len()));
        self.open_store("reopen");
        self.reopens += 1;
        if self.aborted {
            return;
        }
        if let Some(b) = before {
            let a = self.snap();
            let mut b2 = b.clone();
            if more_tables {
                // the new (empty) table appears
                for (k, v) in a.iter() {
                    if k.starts_with("table:") && !b2.contains_key(k) {
                        let _ = b2.insert(k.clone(), v.clone());
                    }
                }
            }
            if a != b2 {
                let diff = snap_diff(&b2, &a);
                self.flag(&["C16"], &format!("reopen-changed-state:{}", diff.first().map(|d| d.0.split(':').next().unwrap_or("?").to_string()).unwrap_or_default()),
                    &diff.iter().take(6).map(|d| format!("{} {}->{}", d.0, d.1, d.2)).collect::<Vec<_>>().join("; "));
                self.abort("reopen-diverged");
                return;
            }
            self.rep.count("lifecycle_snapshots_compared");
        }
        self.after_step(OpKind::Reopen);
    }

    pub fn rebuild(&mut self) {
        if self.aborted || self.store.is_none() {
            return;
        }
        self.steps += 1;
        let before = if self.flags.snapshot_lifecycle { Some(self.snap()) } else { None };
        let s = self.store.take().unwrap();
        let r = catch(move || unsafe { s.rebuild() });
        self.log.push(format!("rebuild -> {}", match &r { Ok(Ok(_)) => "Ok".to_string(), Ok(Err(e)) => format!("Err({e})"), Err(p) => format!("PANIC {}", p.message) }));
        self.rebuilds += 1;
        match r {
            Ok(Ok(ns)) => {
                self.store = Some(ns);
                self.generation += 1;
                self.last_map_len = 0;
                self.note_map_len();
            }
            Ok(Err(e)) => {
                // a failing rebuild must at least leave the data as it was: reopen and compare
                self.flag(&["C16"], &format!("rebuild-failed:{}", if format!("{e}").contains("not empty") { "ENOTEMPTY" } else { "other" }), &format!("rebuild returned an error: {e}"));
                self.open_store("reopen-after-failed-rebuild");
                if let (Some(b), false) = (&before, self.aborted) {
                    let a = self.snap();
                    if a != *b {
                        let diff = snap_diff(b, &a);
                        self.flag(&["C16"], "failed-rebuild-lost-data", &diff.iter().take(6).map(|d| format!("{} {}->{}", d.0, d.1, d.2)).collect::<Vec<_>>().join("; "));
                    }
                }
                self.abort("rebuild-failed");
                return;
            }
            Err(p) => {
                self.flag(&["C16"], &format!("rebuild-panic@{}", p.location), &p.message);
                self.abort("rebuild-panic");
                return;
            }
        }
        if let Some(b) = before {
            let a = self.snap();
            if a != b {
                let diff = snap_diff(&b, &a);
                self.flag(&["C16"], &format!("rebuild-changed-state:{}", diff.first().map(|d| d.0.split(':').next().unwrap_or("?").to_string()).unwrap_or_default()),
                    &diff.iter().take(6).map(|d| format!("{} {}->{}", d.0, d.1, d.2)).collect::<Vec<_>>().join("; "));
                self.abort("rebuild-diverged");
                return;
            }
            self.rep.count("lifecycle_snapshots_compared");
            // compaction and backup
            let store = self.store.as_ref().unwrap();
            if let Ok(st) = store.stats() {
                let lo: usize = 8 + self.model.r.values().map(|e| e.bytes.len()).sum::<usize>();
                let hi: usize = 8 + self.model.r.values().map(|e| e.bytes.len() + 7).sum::<usize>();
                if st.event_bytes < lo || st.event_bytes > hi {
                    self.flag(&["C16"], "rebuild-event-space-not-compact", &format!("event_bytes {} outside [{lo},{hi}] for {} retrievable events", st.event_bytes, self.model.r.len()));
                }
            }
            if !self.dir.join("event.map.bak").exists() || !self.dir.join("lmdb.bak").exists() {
                self.flag(&["C16"], "rebuild-left-no-backup", "event.map.bak / lmdb.bak missing");
            }
        }
        self.after_step(OpKind::Rebuild);
    }

    pub fn table_put(&mut self, table: usize, key: &[u8], val: &[u8]) {
        if self.aborted || self.store.is_none() || self.tables.is_empty() {
            return;
        }
        let name = self.tables[table % self.tables.len()];
        let store = self.store.as_ref().unwrap();
        let r = catch(|| -> Result<(), String> {
            let db = store.extra_table(name).ok_or("no such table")?;
            let mut txn = store.write_txn().map_err(|e| format!("{e}"))?;
            db.put(&mut txn, key, val).map_err(|e| format!("{e}"))?;
            txn.commit().map_err(|e| format!("{e}"))?;
            Ok(())
        });
        self.log.push(format!("table_put {name} {} bytes", key.len()));
        if let Ok(Ok(())) = r {
            let _ = self.model.x.get_mut(name).unwrap().insert(key.to_vec(), val.to_vec());
            self.rep.count("table_puts");
        }
    }

    pub fn table_del(&mut self, table: usize, key: &[u8]) {
        if self.aborted || self.store.is_none() || self.tables.is_empty() {
            return;
        }
        let name = self.tables[table % self.tables.len()];
        let store = self.store.as_ref().unwrap();
        let r = catch(|| -> Result<(), String> {
            let db = store.extra_table(name).ok_or("no such table")?;
            let mut txn = store.write_txn().map_err(|e| format!("{e}"))?;
            let _ = db.delete(&mut txn, key).map_err(|e| format!("{e}"))?;
            txn.commit().map_err(|e| format!("{e}"))?;
            Ok(())
        });
        if let Ok(Ok(())) = r {
            let _ = self.model.x.get_mut(name).unwrap().remove(key);
        }
    }

    // ------------------------------------------------------------------ monitors

    fn after_step(&mut self, op: OpKind) {
        if self.flags.reread_offsets {
            self.check_offsets();
        }
        if self.flags.verify_each_step && !self.aborted {
            self.verify_state(op);
        }
        if self.flags.address_invariant && !self.aborted {
            self.check_addresses(op);
        }
        if self.flags.marker_monotonic && !self.aborted {
            self.check_markers_monotonic();
        }
        if self.flags.derived_filters && !self.aborted {
            self.check_derived(op);
        }
    }

    /// C04: every offset ever returned (in the current file generation) still reads back byte-identical
    pub fn check_offsets(&mut self) {
        let store = match self.store.as_ref() {
            Some(s) => s,
            None => return,
        };
        let mut bad: Option<(u64, String, String)> = None;
        let mut n = 0u64;
        for (g, off, ev) in self.offsets.iter() {
            if *g != self.generation {
                continue;
            }
            n += 1;
            let want = &ev.bytes;
            let got = catch(|| store.get_event_by_offset(*off).map(|e| e.as_bytes().to_vec()));
            match got {
                Ok(Ok(b)) => {
                    if b != *want {
                        bad = Some((*off, ev.short(), format!("bytes differ (len {} vs {})", b.len(), want.len())));
                        break;
                    }
                }
                Ok(Err(e)) => {
                    bad = Some((*off, ev.short(), format!("get_event_by_offset error: {e}")));
                    break;
                }
                Err(p) => {
                    bad = Some((*off, ev.short(), format!("panic: {}", p.message)));
                    break;
                }
            }
        }
        self.rep.count_n("offset_rereads", n);
        if let Some((off, who, why)) = bad {
            self.flag(&["C04"], "offset-no-longer-reads-back", &format!("offset {off} (event {who}): {why}; growths so far {}, reopens {}", self.growths, self.reopens));
            self.abort("offset-readback");
        }
    }

    fn props_for(op: OpKind, aspect: Aspect, foreign_to_actor: bool) -> Vec<&'static str> {
        use Aspect::{Bytes, Query, Retr, Stats};
        use OpKind::{Open, Rebuild, Remove, Reopen, StoreErr, StoreOkAddr, StoreOkDel, StoreOkPlain, Vanish};
        match (op, aspect) {
            (_, Bytes) => vec!["C04"],
            // a failed store is judged by the before/after snapshot (C12); a disagreement with the
            // model seen here was there before the call
            (StoreErr, _) => vec![],
            // (C11: deletions hold "in every continuation of the history (... reopen, rebuild)")
            (Reopen, Aspect::Marker) | (Rebuild, Aspect::Marker) | (Reopen, Retr) | (Rebuild, Retr) => vec!["C16", "C11"],
            (Reopen, _) | (Rebuild, _) | (Open, _) => vec!["C16"],
            (Remove, Stats) | (Vanish, Stats) | (Remove, Query) | (Vanish, Query) => vec!["C18", "C17"],
            (Remove, _) | (Vanish, _) => vec!["C18"],
            (StoreOkAddr, Stats) | (StoreOkAddr, Query) => vec!["C09", "C17"],
            (StoreOkAddr, _) => vec!["C09"],
            (StoreOkDel, Stats) | (StoreOkDel, Query) => vec!["C17", "C11"],
            (StoreOkDel, _) => if foreign_to_actor { vec!["C10"] } else { vec!["C11"] },
            // (C18: ephemeral kinds store Ok but are never retrievable)
            (StoreOkPlain, Retr) => vec!["C04", "C17", "C18"],
            (StoreOkPlain, _) => vec!["C17"],
            (OpKind::Table, _) => vec!["C16"],
        }
    }

    /// Compare ids, markers, holders, index counts and tables with the model
    pub fn verify_state(&mut self, op: OpKind) {
        let divs = self.collect_divergences();
        self.rep.count("state_verifications");
        if !divs.is_empty() {
            let (aspect, text, _) = divs[0].clone();
            let foreign = if op == OpKind::StoreOkDel { self.last_divergence_is_foreign(&text) } else { false };
            let mut props = Self::props_for(op, aspect, foreign);
            // whatever the call was: an event that was stored and has not been removed, replaced or deleted (the model
            // still has it) and can no longer be looked up by id is also C04's "until it is removed, replaced or deleted"
            if aspect == Aspect::Retr && text.contains("= false, model says true") && op != OpKind::StoreErr && !props.contains(&"C04") {
                props.push("C04");
            }
            self.flag(&props, &format!("state-diverges-from-model:{:?}:{:?}", op, aspect), &format!("{} (and {} more)", text, divs.len() - 1));
            self.abort("state-diverged");
        }
    }

    /// Every disagreement between the store's read APIs and the model
    pub fn collect_divergences(&self) -> Vec<(Aspect, String, bool)> {
        match self.store.as_ref() {
            Some(s) => divergences(s, &self.model, &self.ids, &self.addrs, &self.tables),
            None => vec![],
        }
    }

    fn last_divergence_is_foreign(&self, text: &str) -> bool {
        // the last stored event is the requester
        if let Some((_, _, ev)) = self.offsets.last() {
            for (id, e) in self.by_id.iter() {
                if text.contains(&hex(&id[..3])) {
                    return e.sem.pubkey != ev.sem.pubkey;
                }
            }
        }
        false
    }

    /// C09: every address holds at most one retrievable event, by every lookup
    pub fn check_addresses(&mut self, _op: OpKind) {
        let store = match self.store.as_ref() {
            Some(s) => s,
            None => return,
        };
        let mut found: Option<String> = None;
        for a in self.addrs.iter() {
            if !(is_replaceable(a.kind) || is_param(a.kind)) {
                continue;
            }
            // every event ever stored at this address: how many does has_event report?
            let mut present = vec![];
            for ev in self.all.iter() {
                if addr_of(&ev.sem).as_ref() == Some(a) {
                    if let Ok(Ok(true)) = catch(|| store.has_event(Id::from_bytes(ev.sem.id))) {
                        present.push(ev.short());
                    }
                }
            }
            if present.len() > 1 {
                found = Some(format!("address {} has {} retrievable events: {}", a.short(), present.len(), present.join(", ")));
                break;
            }
        }
        self.rep.count("address_invariant_checks");
        if let Some(f) = found {
            self.flag(&["C09"], "more-than-one-event-at-address", &f);
            self.abort("address-invariant");
        }
    }

    /// C11: the deletion time reported for an address never decreases
    pub fn check_markers_monotonic(&mut self) {
        let store = match self.store.as_ref() {
            Some(s) => s,
            None => return,
        };
        let mut bad = None;
        for a in self.addrs.iter() {
            if a.d.len() > 400 {
                continue;
            }
            if let Ok(Ok(t)) = catch(|| store.naddr_is_deleted_asof(&to_addr(a)).map(|o| o.map(|t| t.as_u64()))) {
                let prev = self.marker_seen.get(a).copied();
                match (prev, t) {
                    (Some(p), Some(n)) if n < p => bad = Some(format!("deletion time of {} went from {p} back to {n}", a.short())),
                    (Some(p), None) => bad = Some(format!("deletion time of {} was {p} and is now unset", a.short())),
                    _ => {}
                }
                if let Some(n) = t {
                    let _ = self.marker_seen.insert(a.clone(), n);
                }
            }
        }
        self.rep.count("marker_monotonicity_checks");
        if let Some(b) = bad {
            self.flag(&["C11"], "deletion-time-decreased", &b);
        }
    }

    /// What the store shows about everything NOT authored by `actor` (for C10's direct guard)
    pub fn victim_view(&self, actor: &Id32) -> BTreeMap<String, String> {
        let mut m = BTreeMap::new();
        let store = match self.store.as_ref() {
            Some(s) => s,
            None => return m,
        };
        for ev in self.all.iter() {
            if ev.sem.pubkey == *actor {
                continue;
            }
            // only events that are retrievable now: the property speaks about stored events
            let id = Id::from_bytes(ev.sem.id);
            let has = catch(|| store.has_event(id)).ok().and_then(|r| r.ok()).unwrap_or(false);
            if !has {
                continue;
            }
            let _ = m.insert(format!("retrievable:{}", ev.short()), "1".to_string());
            let del = catch(|| store.event_is_deleted(id)).ok().and_then(|r| r.ok()).unwrap_or(false);
            let _ = m.insert(format!("id-marker:{}", ev.short()), format!("{del}"));
            if let Some(a) = addr_of(&ev.sem) {
                if a.d.len() <= 400 {
                    let t = catch(|| store.naddr_is_deleted_asof(&to_addr(&a)).map(|o| o.map(|t| t.as_u64()))).ok().and_then(|r| r.ok()).flatten();
                    let _ = m.insert(format!("addr-marker:{}", a.short()), format!("{t:?}"));
                    let h = if is_replaceable(a.kind) {
                        catch(|| store.find_replaceable_event(Pubkey::from_bytes(a.author), Kind::from_u16(a.kind)).map(|o| o.map(|e| hex(&e.id().as_slice()[..3])))).ok().and_then(|r| r.ok()).flatten()
                    } else {
                        catch(|| store.find_parameterized_replaceable_event(&to_addr(&a)).map(|o| o.map(|e| hex(&e.id().as_slice()[..3])))).ok().and_then(|r| r.ok()).flatten()
                    };
                    let _ = m.insert(format!("holder:{}", a.short()), format!("{h:?}"));
                }
            }
        }
        // and by query: everything by other authors
        let mut authors: BTreeSet<Id32> = self.all.iter().map(|e| e.sem.pubkey).collect();
        let _ = authors.remove(actor);
        for a in authors {
            let f = SemFilter { authors: vec![a], ..SemFilter::empty() };
            if let QRes::Ok(q) = self.run_query(&f, 0, (true, 0, 0)) {
                let _ = m.insert(format!("query-by-author:{}", hex(&a[..2])), q.ids.iter().map(|i| hex(&i[..3])).collect::<Vec<_>>().join(","));
            }
        }
        m
    }

    // ------------------------------------------------------------------ queries

    pub fn run_query(&self, f: &SemFilter, screen_mode: u8, allow: (bool, u32, u64)) -> QRes {
        let store = match self.store.as_ref() {
            Some(s) => s,
            None => return QRes::Err("no store".into()),
        };
        let of = match f.to_owned() {
            Ok(o) => o,
            Err(e) => return QRes::Err(format!("filter construction: {e}")),
        };
        let by_id = &self.by_id;
        let r = catch(|| {
            let screen = |e: &Event| -> ScreenResult {
                let id = id32(e.id());
                let code = match by_id.get(&id) {
                    Some(ev) => screen_of(screen_mode, &ev.sem),
                    None => 0,
                };
                match code {
                    0 => ScreenResult::Match,
                    1 => ScreenResult::Mismatch,
                    _ => ScreenResult::Redacted,
                }
            };
            store.find_events(&of, allow.0, allow.1, allow.2, screen).map(|(evs, red)| {
                let mut ids = vec![];
                let mut times = vec![];
                let mut bytes_ok = true;
                for e in evs {
                    let id = id32(e.id());
                    ids.push(id);
                    times.push(e.created_at().as_u64());
                    match by_id.get(&id) {
                        Some(ev) => {
                            if ev.bytes != e.as_bytes() {
                                bytes_ok = false;
                            }
                        }
                        None => bytes_ok = false,
                    }
                }
                QueryResult { ids, times, bytes_ok, redacted: red }
            })
        });
        match r {
            Ok(Ok(q)) => QRes::Ok(q),
            Ok(Err(e)) => {
                if matches!(e.inner, InnerError::Scraper) {
                    QRes::Scraper
                } else {
                    QRes::Err(format!("{e}"))
                }
            }
            Err(p) => QRes::Panic(p),
        }
    }

    /// C05 oracle for one query. Violations are flagged for `props`.
    pub fn check_query(&mut self, f: &SemFilter, screen_mode: u8, allow: (bool, u32, u64), props: &[&'static str], label: &str) -> bool {
        let now0 = std::time::SystemTime::now().duration_since(std::time::UNIX_EPOCH).unwrap().as_secs();
        let res = self.run_query(f, screen_mode, allow);
        let now1 = std::time::SystemTime::now().duration_since(std::time::UNIX_EPOCH).unwrap().as_secs();
        let q = self.model.qualifying(f, &|e| screen_of(screen_mode, e));
        let names_something = !f.ids.is_empty() || !f.authors.is_empty() || !f.tags.is_empty();
        let desc = format!("filter {} screen-mode {screen_mode} allow {:?} [{label}]", f.describe(), allow);
        self.rep.count("queries_checked");
        match res {
            QRes::Panic(p) => {
                self.flag(props, &format!("query-panic:{}@{}", panic_class(&p.message), p.location), &format!("{}: {desc}", p.message));
                false
            }
            QRes::Err(e) => {
                self.flag(props, "query-error", &format!("{e}: {desc}"));
                false
            }
            QRes::Scraper => {
                self.rep.count("queries_refused_as_scraping");
                let mut justified = false;
                if !names_something && !allow.0 && f.eff_limit() > allow.1 {
                    for now in now0..=now1 {
                        let maxtime = f.eff_until().min(now);
                        // the window's span in seconds (an empty or inverted window spans nothing and is covered
                        // by any positive allowance)
                        if maxtime.saturating_sub(f.eff_since()) >= allow.2 {
                            justified = true;
                        }
                    }
                }
                if !justified {
                    self.flag(props, if names_something { "scraper-refusal-of-selective-filter" } else { "scraper-refusal-despite-allowance" }, &desc);
                    return false;
                }
                true
            }
            QRes::Ok(r) => {
                let qset: BTreeMap<Id32, u64> = q.iter().map(|e| (e.sem.id, e.sem.created_at)).collect();
                let limit = f.eff_limit() as usize;
                let mut ok = true;
                // membership
                let mut seen = BTreeSet::new();
                for id in r.ids.iter() {
                    if !seen.insert(*id) {
                        self.flag(props, "query-returned-duplicate", &format!("{} twice: {desc}", hex(&id[..3])));
                        ok = false;
                    }
                    if !qset.contains_key(id) {
                        let why = match self.by_id.get(id) {
                            None => "unknown-event".to_string(),
                            Some(ev) => {
                                if !self.model.r.contains_key(id) { "unretrievable-event".into() }
                                else if !f.matches(&ev.sem) { "non-matching-event".into() }
                                else { "screened-out-event".into() }
                            }
                        };
                        self.flag(props, &format!("query-returned-{why}"), &format!("{}: {desc}", hex(&id[..3])));
                        ok = false;
                    }
                }
                if !r.bytes_ok {
                    self.flag(&["C04", props[0]], "query-returned-wrong-bytes", &desc);
                    ok = false;
                }
                // order
                for w in r.times.windows(2) {
                    if w[0] < w[1] {
                        self.flag(props, "query-not-newest-first", &format!("created_at sequence {:?}: {desc}", r.times));
                        ok = false;
                        break;
                    }
                }
                // size
                let want_len = limit.min(q.len());
                if ok && r.ids.len() != want_len {
                    let missing: Vec<String> = q.iter().filter(|e| !seen.contains(&e.sem.id)).take(4).map(|e| e.short()).collect();
                    let plan = plan_of(f);
                    self.flag(props, &format!("query-incomplete:{plan}"), &format!("returned {} of {} qualifying (limit {}); missing e.g. {}: {desc}", r.ids.len(), q.len(), limit, missing.join(", ")));
                    ok = false;
                }
                // newest-k under the limit
                if ok && !r.times.is_empty() && r.ids.len() < q.len() {
                    let oldest = *r.times.iter().min().unwrap();
                    for e in q.iter() {
                        if !seen.contains(&e.sem.id) && e.sem.created_at > oldest {
                            let plan = plan_of(f);
                            self.flag(props, &format!("limit-omits-newer-event:{plan}"), &format!("omitted {} is newer than returned created_at {oldest}: {desc}", e.short()));
                            ok = false;
                            break;
                        }
                    }
                }
                // redacted flag: only if some matching event was screened as redacted
                if r.redacted {
                    let any = self.model.r.values().any(|e| f.matches(&e.sem) && screen_of(screen_mode, &e.sem) == 2);
                    if !any {
                        self.flag(props, "redacted-flag-without-redacted-match", &desc);
                        ok = false;
                    }
                }
                self.rep.count(&format!("query_plan:{}", plan_of(f)));
                if want_len > 0 {
                    self.rep.count("queries_with_nonempty_expected_result");
                }
                if limit < q.len() {
                    self.rep.count("queries_cut_by_limit");
                }
                ok
            }
        }
    }

    /// C17: every retrievable event is found by each filter derived from its own fields; gone events by none
    pub fn check_derived(&mut self, op: OpKind) {
        let mut filters: Vec<(SemFilter, Id32)> = vec![];
        let evs: Vec<Rc<Ev>> = self.all.clone();
        for ev in evs.iter() {
            let e = &ev.sem;
            if is_ephemeral(e.kind) {
                continue;
            }
            let mut fs = vec![
                SemFilter { ids: vec![e.id], ..SemFilter::empty() },
                SemFilter { authors: vec![e.pubkey], ..SemFilter::empty() },
                SemFilter { authors: vec![e.pubkey], kinds: vec![e.kind], ..SemFilter::empty() },
                SemFilter { since: Some(e.created_at), until: Some(e.created_at), ..SemFilter::empty() },
                SemFilter { kinds: vec![e.kind], since: Some(e.created_at.saturating_sub(1)), until: Some(e.created_at.saturating_add(1)), limit: Some(1000), ..SemFilter::empty() },
            ];
            let mut seen_tags = BTreeSet::new();
            for t in e.tags.iter() {
                if t.len() >= 2 && t[0].len() == 1 && t[0].as_bytes()[0].is_ascii_alphabetic() && seen_tags.insert((t[0].clone(), t[1].clone())) {
                    // only the first value of a tag is what NIP-01 filters look at; an event may carry
                    // the same name several times, each with its own first value
                    let c = vec![(t[0].clone(), vec![t[1].clone()])];
                    fs.push(SemFilter { tags: c.clone(), ..SemFilter::empty() });
                    fs.push(SemFilter { tags: c.clone(), authors: vec![e.pubkey], ..SemFilter::empty() });
                    fs.push(SemFilter { tags: c.clone(), kinds: vec![e.kind], ..SemFilter::empty() });
                    fs.push(SemFilter { tags: c, limit: Some(500), ..SemFilter::empty() });
                }
            }
            for f in fs {
                filters.push((f, e.id));
            }
            // one-byte tag names that are not letters cannot be asked for in JSON, but a filter built from parts can
            // name them: an event that is gone must not come back through such a filter either (only that direction
            // is checked - whether such tags are indexed at all is not part of the property)
            for t in e.tags.iter() {
                if t.len() >= 2 && t[0].len() == 1 && !t[0].as_bytes()[0].is_ascii_alphabetic() && !self.model.r.contains_key(&e.id) {
                    let c = vec![(t[0].clone(), vec![t[1].clone()])];
                    filters.push((SemFilter { tags: c.clone(), ..SemFilter::empty() }, e.id));
                    filters.push((SemFilter { tags: c.clone(), authors: vec![e.pubkey], ..SemFilter::empty() }, e.id));
                    filters.push((SemFilter { tags: c, kinds: vec![e.kind], ..SemFilter::empty() }, e.id));
                }
            }
        }
        self.rep.count_n("derived_filters_run", filters.len() as u64);
        let props = match op {
            OpKind::Remove | OpKind::Vanish => vec!["C17", "C18"],
            _ => vec!["C17"],
        };
        for (f, id) in filters {
            if self.aborted {
                break;
            }
            let retrievable = self.model.r.contains_key(&id);
            match self.run_query(&f, 0, (true, 0, 0)) {
                QRes::Ok(q) => {
                    let found = q.ids.contains(&id);
                    if retrievable && !found {
                        let who = self.by_id.get(&id).map(|e| e.short()).unwrap_or_default();
                        self.flag(&props, &format!("retrievable-event-missed-by-own-filter:{}", plan_of(&f)), &format!("event {who} not returned by {}", f.describe()));
                        self.abort("derived-filter");
                    } else if !retrievable && found {
                        let who = self.by_id.get(&id).map(|e| e.short()).unwrap_or_default();
                        self.flag(&props, &format!("gone-event-still-returned:{}", plan_of(&f)), &format!("event {who} (not retrievable by id) still returned by {}", f.describe()));
                        self.abort("derived-filter");
                    }
                }
                QRes::Panic(p) => {
                    self.flag(&props, &format!("query-panic@{}", p.location), &p.message);
                    self.abort("derived-filter");
                }
                QRes::Scraper => {}
                QRes::Err(e) => {
                    self.flag(&props, "query-error", &e);
                    self.abort("derived-filter");
                }
            }
        }
    }

    // ------------------------------------------------------------------ snapshots

    /// Everything observable, as a flat map (see DESIGN.md §3.2)
    pub fn snap(&self) -> BTreeMap<String, String> {
        let mut m = BTreeMap::new();
        let store = match self.store.as_ref() {
            Some(s) => s,
            None => return m,
        };
        for id in self.ids.iter() {
            let pid = Id::from_bytes(*id);
            let k = hex(&id[..4]);
            let has = catch(|| store.has_event(pid)).map(|r| r.map_err(|e| format!("{e}"))).map_err(|p| p.message);
            let _ = m.insert(format!("has:{k}"), format!("{has:?}"));
            let get = catch(|| store.get_event_by_id(pid).map(|o| o.map(|e| fnv(e.as_bytes())))).map(|r| r.map_err(|e| format!("{e}"))).map_err(|p| p.message);
            let _ = m.insert(format!("get:{k}"), format!("{get:?}"));
            let del = catch(|| store.event_is_deleted(pid)).map(|r| r.map_err(|e| format!("{e}"))).map_err(|p| p.message);
            let _ = m.insert(format!("isdel:{k}"), format!("{del:?}"));
        }
        for a in self.addrs.iter() {
            if a.d.len() > 400 {
                continue;
            }
            let pa = to_addr(a);
            let t = catch(|| store.naddr_is_deleted_asof(&pa).map(|o| o.map(|t| t.as_u64()))).map(|r| r.map_err(|e| format!("{e}"))).map_err(|p| p.message);
            let _ = m.insert(format!("naddr:{}", a.short()), format!("{t:?}"));
            if is_replaceable(a.kind) {
                let h = catch(|| store.find_replaceable_event(pa.author, pa.kind).map(|o| o.map(|e| hex(&e.id().as_slice()[..4])))).map(|r| r.map_err(|e| format!("{e}"))).map_err(|p| p.message);
                let _ = m.insert(format!("holder:{}", a.short()), format!("{h:?}"));
            } else if is_param(a.kind) {
                let h = catch(|| store.find_parameterized_replaceable_event(&pa).map(|o| o.map(|e| hex(&e.id().as_slice()[..4])))).map(|r| r.map_err(|e| format!("{e}"))).map_err(|p| p.message);
                let _ = m.insert(format!("holder:{}", a.short()), format!("{h:?}"));
            }
        }
        // queries: one per index plan over the universe
        let mut authors: BTreeSet<Id32> = BTreeSet::new();
        let mut kinds: BTreeSet<u16> = BTreeSet::new();
        let mut tagvals: BTreeSet<(String, String)> = BTreeSet::new();
        for e in self.all.iter() {
            let _ = authors.insert(e.sem.pubkey);
            let _ = kinds.insert(e.sem.kind);
            for t in e.sem.tags.iter() {
                if t.len() >= 2 && t[0].len() == 1 && t[0].as_bytes()[0].is_ascii_alphabetic() && tagvals.len() < 40 {
                    let _ = tagvals.insert((t[0].clone(), t[1].clone()));
                }
            }
        }
        let mut filters: Vec<(String, SemFilter)> = vec![];
        filters.push(("scrape".into(), SemFilter::empty()));
        filters.push(("ids".into(), SemFilter { ids: self.ids.iter().take(200).cloned().collect(), ..SemFilter::empty() }));
        for a in authors.iter() {
            filters.push((format!("author:{}", hex(&a[..2])), SemFilter { authors: vec![*a], ..SemFilter::empty() }));
            for k in kinds.iter().take(12) {
                filters.push((format!("ak:{}:{k}", hex(&a[..2])), SemFilter { authors: vec![*a], kinds: vec![*k], ..SemFilter::empty() }));
            }
        }
        for (n, v) in tagvals.iter() {
            filters.push((format!("tag:{n}={}", show(v.as_bytes(), 10)), SemFilter { tags: vec![(n.clone(), vec![v.clone()])], ..SemFilter::empty() }));
            if let Some(k) = kinds.iter().next() {
                filters.push((format!("kt:{k}:{n}={}", show(v.as_bytes(), 10)), SemFilter { kinds: vec![*k], tags: vec![(n.clone(), vec![v.clone()])], ..SemFilter::empty() }));
            }
            if let Some(a) = authors.iter().next() {
                filters.push((format!("at:{}:{n}={}", hex(&a[..2]), show(v.as_bytes(), 10)), SemFilter { authors: vec![*a], tags: vec![(n.clone(), vec![v.clone()])], ..SemFilter::empty() }));
            }
        }
        for (name, f) in filters {
            let r = match self.run_query(&f, 0, (true, 0, 0)) {
                QRes::Ok(q) => {
                    // ties in created_at may legitimately come back in any order: normalise by sorting ids within a timestamp
                    let mut pairs: Vec<(u64, String)> = q.times.iter().zip(q.ids.iter()).map(|(t, i)| (*t, hex(&i[..4]))).collect();
                    pairs.sort_by(|a, b| b.cmp(a));
                    pairs.iter().map(|p| p.1.clone()).collect::<Vec<_>>().join(",")
                }
                QRes::Scraper => "Scraper".into(),
                QRes::Err(e) => format!("Err({e})"),
                QRes::Panic(p) => format!("Panic({})", p.message),
            };
            let _ = m.insert(format!("query:{name}"), r);
        }
        if let Ok(Ok(st)) = catch(|| store.stats()) {
            let ix = st.index_stats;
            let _ = m.insert("stats:counts".into(), format!("i={} ci={} tc={} ac={} akc={} atc={} ktc={} del={} naddr={}",
                ix.i_index_entries, ix.ci_index_entries, ix.tc_index_entries, ix.ac_index_entries, ix.akc_index_entries,
                ix.atc_index_entries, ix.ktc_index_entries, ix.deleted_index_entries, ix.deleted_naddr_index_entries));
        }
        for name in self.tables.iter() {
            let dump = catch(|| -> Result<String, String> {
                let db = store.extra_table(name).ok_or("missing")?;
                let txn = store.read_txn().map_err(|e| format!("{e}"))?;
                let mut s = String::new();
                for it in db.iter(&txn).map_err(|e| format!("{e}"))? {
                    let (k, v) = it.map_err(|e| format!("{e}"))?;
                    s.push_str(&format!("{}={};", hex(k), hex(v)));
                }
                Ok(s)
            });
            let _ = m.insert(format!("table:{name}"), format!("{:?}", dump.map_err(|p| p.message)));
        }
        m
    }
}


/// Every disagreement between a store's read APIs and a model, over the given universe
pub fn divergences(store: &Store, model: &Model, ids: &BTreeSet<Id32>, addrs: &BTreeSet<AddrKey>, tables: &[&'static str]) -> Vec<(Aspect, String, bool)> {
    let mut divs: Vec<(Aspect, String, bool)> = vec![];
    for id in ids.iter() {
        let pid = Id::from_bytes(*id);
        let want = model.r.get(id);
        let foreign = false;
        match catch(|| store.has_event(pid)) {
            Ok(Ok(h)) => {
                if h != want.is_some() {
                    divs.push((Aspect::Retr, format!("has_event({}) = {h}, model says {}", hex(&id[..3]), want.is_some()), foreign));
                }
            }
            other => divs.push((Aspect::Retr, format!("has_event({}) failed: {:?}", hex(&id[..3]), other.map(|r| r.map_err(|e| format!("{e}"))).map_err(|p| p.message)), foreign)),
        }
        match catch(|| store.get_event_by_id(pid).map(|o| o.map(|e| e.as_bytes().to_vec()))) {
            Ok(Ok(got)) => match (got, want) {
                (Some(b), Some(w)) => {
                    if b != w.bytes {
                        divs.push((Aspect::Bytes, format!("get_event_by_id({}) returns different bytes", hex(&id[..3])), foreign));
                    }
                }
                (None, None) => {}
                (g, w) => divs.push((Aspect::Retr, format!("get_event_by_id({}) is_some={}, model says {}", hex(&id[..3]), g.is_some(), w.is_some()), foreign)),
            },
            other => divs.push((Aspect::Retr, format!("get_event_by_id({}) failed: {:?}", hex(&id[..3]), other.map(|r| r.map(|_| ()).map_err(|e| format!("{e}"))).map_err(|p| p.message)), foreign)),
        }
        match catch(|| store.event_is_deleted(pid)) {
            Ok(Ok(d)) => {
                if d != model.d.contains(id) {
                    divs.push((Aspect::Marker, format!("event_is_deleted({}) = {d}, model says {}", hex(&id[..3]), !d), foreign));
                }
            }
            _ => divs.push((Aspect::Marker, "event_is_deleted failed".into(), foreign)),
        }
    }
    for a in addrs.iter() {
        if a.d.len() > 400 {
            continue; // beyond the LMDB key size: lookups of such markers error out (exercised under C12)
        }
        let pa = to_addr(a);
        match catch(|| store.naddr_is_deleted_asof(&pa).map(|o| o.map(|t| t.as_u64()))) {
            Ok(Ok(t)) => {
                let want = model.a.get(a).copied();
                if t != want {
                    divs.push((Aspect::Marker, format!("naddr_is_deleted_asof({}) = {t:?}, model says {want:?}", a.short()), false));
                }
            }
            Ok(Err(e)) => divs.push((Aspect::Marker, format!("naddr_is_deleted_asof({}) error {e}", a.short()), false)),
            Err(p) => divs.push((Aspect::Marker, format!("naddr_is_deleted_asof panic {}", p.message), false)),
        }
        let want = model.holder(a).map(|e| e.sem.id);
        let got = if is_replaceable(a.kind) {
            Some(catch(|| store.find_replaceable_event(pa.author, pa.kind).map(|o| o.map(|e| id32(e.id())))))
        } else if is_param(a.kind) {
            Some(catch(|| store.find_parameterized_replaceable_event(&pa).map(|o| o.map(|e| id32(e.id())))))
        } else {
            None
        };
        if let Some(g) = got {
            match g {
                Ok(Ok(g)) => {
                    if g != want {
                        divs.push((Aspect::Holder, format!("holder of {} is {:?}, model says {:?}", a.short(), g.map(|i| hex(&i[..3])), want.map(|i| hex(&i[..3]))), false));
                    }
                }
                Ok(Err(e)) => divs.push((Aspect::Holder, format!("find at {} error {e}", a.short()), false)),
                Err(p) => divs.push((Aspect::Holder, format!("find at {} panic {}", a.short(), p.message), false)),
            }
        }
    }
    match catch(|| store.stats()) {
        Ok(Ok(st)) => {
            let n = model.r.len() as u64;
            let ix = &st.index_stats;
            for (name, v) in [("i", ix.i_index_entries), ("ci", ix.ci_index_entries), ("ac", ix.ac_index_entries), ("akc", ix.akc_index_entries)] {
                if v != n {
                    divs.push((Aspect::Stats, format!("{name}_index_entries = {v}, retrievable events = {n}"), false));
                }
            }
            if n == 0 {
                for (name, v) in [("tc", ix.tc_index_entries), ("atc", ix.atc_index_entries), ("ktc", ix.ktc_index_entries)] {
                    if v != 0 {
                        divs.push((Aspect::Stats, format!("{name}_index_entries = {v} although nothing is retrievable"), false));
                    }
                }
            }
        }
        _ => divs.push((Aspect::Stats, "stats() failed".into(), false)),
    }
    for name in tables.iter() {
        let got = catch(|| -> Result<BTreeMap<Vec<u8>, Vec<u8>>, String> {
            let db = store.extra_table(name).ok_or("missing table")?;
            let txn = store.read_txn().map_err(|e| format!("{e}"))?;
            let mut m = BTreeMap::new();
            for it in db.iter(&txn).map_err(|e| format!("{e}"))? {
                let (k, v) = it.map_err(|e| format!("{e}"))?;
                let _ = m.insert(k.to_vec(), v.to_vec());
            }
            Ok(m)
        });
        match got {
            Ok(Ok(m)) => {
                if Some(&m) != model.x.get(*name) {
                    divs.push((Aspect::Table, format!("extra table {name} differs: {} rows vs {}", m.len(), model.x.get(*name).map(|x| x.len()).unwrap_or(0)), false));
                }
            }
            _ => divs.push((Aspect::Table, format!("extra table {name} unreadable"), false)),
        }
    }
    divs
}

pub fn snap_diff(a: &BTreeMap<String, String>, b: &BTreeMap<String, String>) -> Vec<(String, String, String)> {
    let mut v = vec![];
    let keys: BTreeSet<&String> = a.keys().chain(b.keys()).collect();
    for k in keys {
        let x = a.get(k).cloned().unwrap_or_else(|| "<absent>".into());
        let y = b.get(k).cloned().unwrap_or_else(|| "<absent>".into());
        if x != y {
            v.push((k.clone(), x, y));
        }
    }
    v
}

/// which index plan pocket-db would choose for this filter (for coverage accounting and signatures)
pub fn plan_of(f: &SemFilter) -> &'static str {
    if !f.ids.is_empty() {
        "ids"
    } else if !f.authors.is_empty() && !f.kinds.is_empty() {
        "author+kind"
    } else if !f.authors.is_empty() && !f.tags.is_empty() {
        "author+tag"
    } else if !f.kinds.is_empty() && !f.tags.is_empty() {
        "kind+tag"
    } else if !f.tags.is_empty() {
        "tag"
    } else if !f.authors.is_empty() {
        "author"
    } else {
        "scrape"
    }
}
