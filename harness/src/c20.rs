//! C20 — HyperLogLog sketches merge like sets and estimate without failing.
use crate::util::*;
use pocket_types::Hll8;
use serde_json::json;

fn hexstate(regs: &[u8; 256]) -> String {
    hex(regs)
}

fn sketch_of(elems: &[[u8; 32]], offset: usize) -> Result<Hll8, String> {
    let mut h = Hll8::new();
    for e in elems {
        h.add_element(e, offset).map_err(|e| format!("{e}"))?;
    }
    Ok(h)
}

fn check_state(rep: &mut Report, regs: &[u8; 256], family: &str) {
    let hs = hexstate(regs);
    let nontrivial = regs.iter().any(|r| *r != 0);
    rep.eval(fnv(regs), nontrivial);
    // import
    let imported = match catch(|| Hll8::from_hex_string(&hs)) {
        Ok(Ok(h)) => h,
        Ok(Err(e)) => {
            rep.finding(
                "import-rejects-valid-hex",
                &format!("from_hex_string rejected a 512-digit hex string: {e}"),
                json!({"kind":"state","hex":hs}),
            );
            return;
        }
        Err(p) => {
            rep.finding(
                &format!("import-panic@{}", p.location),
                &p.message,
                json!({"kind":"state","hex":hs}),
            );
            return;
        }
    };
    // a cleared sketch is the empty sketch: same register state as a new one (hence estimate 0 and neutral in a merge)
    {
        let hs2 = hs.clone();
        match catch(move || {
            let mut c = Hll8::from_hex_string(&hs2).ok()?;
            c.clear();
            Some((c.to_hex_string(), c.estimate_count()))
        }) {
            Ok(Some((h, est))) => {
                if h != Hll8::new().to_hex_string() || est != 0 {
                    rep.finding(
                        "cleared-sketch-not-empty",
                        &format!("family {family}: after clear() the sketch exports {} non-zero digit(s) and estimates {est}", h.bytes().filter(|b| *b != b'0').count()),
                        json!({"kind":"state","hex":hs}),
                    );
                }
            }
            Ok(None) => {}
            Err(p) => rep.finding(&format!("clear-panic@{}", p.location), &p.message, json!({"kind":"state","hex":hs})),
        }
    }
    // export == identity
    match catch(|| imported.to_hex_string()) {
        Ok(s) => {
            if s != hs {
                rep.finding(
                    "hex-roundtrip-not-identity",
                    &format!("family {family}: import then export differs"),
                    json!({"kind":"state","hex":hs,"got":s}),
                );
            }
        }
        Err(p) => rep.finding(
            &format!("export-panic@{}", p.location),
            &p.message,
            json!({"kind":"state","hex":hs}),
        ),
    }
    // estimate: no panic, finite
    match catch(|| imported.estimate_count()) {
        Ok(est) => {
            rep.count("estimates_computed");
            if est == usize::MAX {
                rep.finding(
                    "estimate-not-finite",
                    &format!("family {family}: estimate saturated to usize::MAX (infinite)"),
                    json!({"kind":"state","hex":hs}),
                );
            }
            if !nontrivial && est != 0 {
                rep.finding(
                    "empty-sketch-nonzero",
                    &format!("estimate of the empty sketch is {est}"),
                    json!({"kind":"state","hex":hs}),
                );
            }
            let maxreg = *regs.iter().max().unwrap();
            if maxreg >= 64 {
                rep.count("estimates_with_register_ge_64");
            }
        }
        Err(p) => {
            let maxreg = *regs.iter().max().unwrap();
            rep.finding(
                &format!("estimate-panic@{}:{}", p.location, panic_class(&p.message)),
                &format!(
                    "family {family}: estimate_count panicked ({}) on an importable state; max register {}",
                    p.message, maxreg
                ),
                json!({"kind":"state","hex":hs}),
            );
        }
    }
}

fn rand_elems(rng: &mut Rng, n: usize, small_pool: bool) -> Vec<[u8; 32]> {
    let mut v = Vec::with_capacity(n);
    for _ in 0..n {
        let mut e = rng.arr32();
        if small_pool {
            // force long zero runs so that rho values vary widely
            let z = rng.usize_below(20);
            let start = rng.usize_below(32);
            for i in start..(start + z).min(32) {
                e[i] = 0;
            }
        }
        v.push(e);
    }
    v
}

fn law_instance(rep: &mut Rng, r: &mut Report, offset: usize) {
    let rng = rep;
    let na = rng.usize_below(40);
    let nb = rng.usize_below(40);
    let nc = rng.usize_below(40);
    let sp = rng.chance(1, 2);
    let a = rand_elems(rng, na, sp);
    let mut b = rand_elems(rng, nb, sp);
    let c = rand_elems(rng, nc, sp);
    // overlap: b shares some of a
    for i in 0..a.len().min(b.len()) {
        if rng.chance(1, 3) {
            b[i] = a[i];
        }
    }
    let mut case = Vec::new();
    for e in a.iter().chain(b.iter()).chain(c.iter()) {
        case.extend_from_slice(e);
    }
    case.push(offset as u8);
    r.eval(fnv(&case), na + nb + nc > 0);
    let replay = json!({"kind":"law","offset":offset,
        "a": a.iter().map(|e| hex(e)).collect::<Vec<_>>(),
        "b": b.iter().map(|e| hex(e)).collect::<Vec<_>>(),
        "c": c.iter().map(|e| hex(e)).collect::<Vec<_>>()});
    let res = catch(|| -> Result<Vec<(&'static str, String, String)>, String> {
        let mut bad = vec![];
        let sa = sketch_of(&a, offset)?;
        let sb = sketch_of(&b, offset)?;
        let sc = sketch_of(&c, offset)?;
        // commutativity
        let mut ab = sa;
        ab += sb;
        let mut ba = sb;
        ba += sa;
        if ab.to_hex_string() != ba.to_hex_string() {
            bad.push(("merge-not-commutative", ab.to_hex_string(), ba.to_hex_string()));
        }
        // associativity
        let mut ab_c = ab;
        ab_c += sc;
        let mut bc = sb;
        bc += sc;
        let mut a_bc = sa;
        a_bc += bc;
        if ab_c.to_hex_string() != a_bc.to_hex_string() {
            bad.push(("merge-not-associative", ab_c.to_hex_string(), a_bc.to_hex_string()));
        }
        // idempotence
        let mut aa = sa;
        aa += sa;
        if aa.to_hex_string() != sa.to_hex_string() {
            bad.push(("merge-not-idempotent", aa.to_hex_string(), sa.to_hex_string()));
        }
        let mut abab = ab;
        abab += ab;
        if abab.to_hex_string() != ab.to_hex_string() {
            bad.push(("merge-not-idempotent", abab.to_hex_string(), ab.to_hex_string()));
        }
        // union == merge
        let mut un: Vec<[u8; 32]> = a.clone();
        un.extend(b.iter().cloned());
        let su = sketch_of(&un, offset)?;
        if su.to_hex_string() != ab.to_hex_string() {
            bad.push(("union-differs-from-merge", su.to_hex_string(), ab.to_hex_string()));
        }
        // add idempotent: adding every element again changes nothing
        let mut twice = su;
        for e in un.iter() {
            twice.add_element(e, offset).map_err(|e| format!("{e}"))?;
        }
        if twice.to_hex_string() != su.to_hex_string() {
            bad.push(("add-not-idempotent", twice.to_hex_string(), su.to_hex_string()));
        }
        // order independent: reversed and rotated orders
        let mut rev = un.clone();
        rev.reverse();
        let sr = sketch_of(&rev, offset)?;
        if sr.to_hex_string() != su.to_hex_string() {
            bad.push(("add-order-dependent", sr.to_hex_string(), su.to_hex_string()));
        }
        if un.len() > 2 {
            let mut rot = un.clone();
            rot.rotate_left(un.len() / 2);
            let s2 = sketch_of(&rot, offset)?;
            if s2.to_hex_string() != su.to_hex_string() {
                bad.push(("add-order-dependent", s2.to_hex_string(), su.to_hex_string()));
            }
        }
        // merging with the empty sketch is neutral
        let mut ae = sa;
        ae += Hll8::new();
        if ae.to_hex_string() != sa.to_hex_string() {
            bad.push(("merge-empty-not-neutral", ae.to_hex_string(), sa.to_hex_string()));
        }
        // estimate never fails on reachable states
        let _ = su.estimate_count();
        Ok(bad)
    });
    match res {
        Ok(Ok(bad)) => {
            for (sig, x, y) in bad {
                r.finding(sig, &format!("offset {offset}: {x} vs {y}"), replay.clone());
            }
        }
        Ok(Err(e)) => r.finding(
            "add-element-rejected-valid-offset",
            &format!("offset {offset}: {e}"),
            replay,
        ),
        Err(p) => r.finding(
            &format!("law-panic@{}:{}", p.location, panic_class(&p.message)),
            &p.message,
            replay,
        ),
    }
}

/// One stream of uniformly random elements; every prefix of it is a uniformly random set, so the estimate is checked at
/// a dense ladder of cardinalities (factor 1.04) - in particular across the hand-over between the small-range
/// correction and the raw estimate, where a sketch with one register still empty can be mis-corrected.
fn accuracy_stream(rng: &mut Rng, rep: &mut Report, max_n: usize, offset: usize) -> Option<String> {
    let mut h = Hll8::new();
    let sub = rng.next_u64();
    let mut r2 = Rng::new(sub);
    let mut next_check = 100usize;
    for n in 1..=max_n {
        let e = r2.arr32();
        if h.add_element(&e, offset).is_err() {
            return None;
        }
        if n == next_check {
            next_check = (next_check as f64 * 1.04) as usize + 1;
            rep.count("accuracy_ladder_checks");
            match catch(|| h.estimate_count()) {
                Ok(est) => {
                    let err = (est as f64 - n as f64).abs() / n as f64;
                    rep.set_max("accuracy_max_rel_err_permille", (err * 1000.0) as u64);
                    if err >= 0.15 {
                        // where the larger errors occur (evidence only)
                        let bucket = if n < 200 { "100-199" } else if n < 400 { "200-399" } else if n < 640 { "400-639" } else if n < 1000 { "640-999" } else if n < 2000 { "1000-1999" } else if n < 4000 { "2000-3999" } else { "4000+" };
                        rep.count(&format!("accuracy_rel_err_ge_15pct_at_n:{bucket}"));
                        rep.set_max(&format!("accuracy_max_rel_err_permille_at_n:{bucket}"), (err * 1000.0) as u64);
                    }
                    if !(err < 0.40) {
                        // one excursion is not a verdict (the envelope is a probabilistic statement); the caller
                        // judges the RATE of streams with an excursion
                        rep.count("accuracy_streams");
                        rep.count("accuracy_streams_with_an_excursion_beyond_40pct");
                        return Some(format!("n={n} offset={offset} estimate={est} rel.err={err:.3} subseed={sub}"));
                    }
                }
                Err(p) => {
                    rep.finding(&format!("estimate-panic@{}:{}", p.location, panic_class(&p.message)), &format!("reachable state after {n} adds: {}", p.message), json!({"kind":"accuracy","n":n,"offset":offset,"subseed":sub}));
                    return None;
                }
            }
        }
    }
    rep.eval(fnv_parts(&[&sub.to_le_bytes(), &(max_n as u64).to_le_bytes(), &[offset as u8]]), true);
    rep.count("accuracy_streams");
    None
}

fn accuracy(rng: &mut Rng, rep: &mut Report, n: usize, offset: usize) {
    let mut h = Hll8::new();
    let mut seedcase = vec![];
    let sub = rng.next_u64();
    let mut r2 = Rng::new(sub);
    for _ in 0..n {
        let e = r2.arr32();
        if seedcase.len() < 64 {
            seedcase.extend_from_slice(&e[..8]);
        }
        if h.add_element(&e, offset).is_err() {
            rep.finding(
                "add-element-rejected-valid-offset",
                &format!("offset {offset}"),
                json!({"kind":"accuracy","n":n,"offset":offset,"subseed":sub}),
            );
            return;
        }
    }
    rep.eval(fnv_parts(&[&seedcase, &(n as u64).to_le_bytes(), &[offset as u8]]), true);
    match catch(|| h.estimate_count()) {
        Ok(est) => {
            let err = (est as f64 - n as f64).abs() / n as f64;
            rep.set_max("accuracy_max_rel_err_permille", (err * 1000.0) as u64);
            rep.count("accuracy_runs");
            if !(err < 0.40) {
                rep.finding(
                    "estimate-outside-envelope",
                    &format!("n={n} offset={offset} estimate={est} rel.err={err:.3}"),
                    json!({"kind":"accuracy","n":n,"offset":offset,"subseed":sub}),
                );
            }
        }
        Err(p) => rep.finding(
            &format!("estimate-panic@{}:{}", p.location, panic_class(&p.message)),
            &format!("reachable state after {n} adds: {}", p.message),
            json!({"kind":"accuracy","n":n,"offset":offset,"subseed":sub}),
        ),
    }
}

pub fn run(args: &Args) -> Report {
    let mut rep = Report::new("C20", &args.leg(), &args.tier(), args.seed());
    let mut rng = Rng::new(args.seed() ^ 0xC20);
    let thorough = args.thorough();

    // 1. every single-register state (register i = v, others 0): 256 * 256, exhaustive
    for i in 0..256usize {
        for v in 0..256usize {
            let mut regs = [0u8; 256];
            regs[i] = v as u8;
            check_state(&mut rep, &regs, "single-register");
        }
    }
    rep.count_n("single_register_states", 65536);
    // all-equal states
    for v in 0..256usize {
        let regs = [v as u8; 256];
        check_state(&mut rep, &regs, "all-equal");
    }
    rep.exhaustive = true; // for the two enumerated families (see rule)
    // random register states
    let nrand = if thorough { 2_000_000 } else { 20_000 };
    for k in 0..nrand {
        let mut regs = [0u8; 256];
        let b = rng.bytes(256);
        let mode = k % 4;
        for i in 0..256 {
            regs[i] = match mode {
                0 => b[i],
                1 => b[i] % 66,       // around the 64 boundary
                2 => if b[i] < 200 { b[i] % 20 } else { b[i] },
                _ => if b[i] % 7 == 0 { 0 } else { b[i] % 33 },
            };
        }
        check_state(&mut rep, &regs, "random");
        if k < 2 {
            rep.sample(json!({"family":"random-state","hex_prefix":hex(&regs[..24])}));
        }
    }
    // bad hex strings must be rejected, never panic
    for k in 0..200u64 {
        let mut regs = rng.bytes(256);
        regs[0] = 1;
        let mut s = hex(&regs).into_bytes();
        let variant = k % 5;
        let text: String = match variant {
            0 => {
                s.truncate(rng.usize_below(512));
                String::from_utf8(s).unwrap()
            }
            1 => {
                s.extend_from_slice(b"00");
                String::from_utf8(s).unwrap()
            }
            2 => {
                let p = rng.usize_below(512);
                s[p] = b'g';
                String::from_utf8(s).unwrap()
            }
            3 => {
                // non-ASCII character
                let p = rng.usize_below(510);
                let mut t = String::from_utf8(s).unwrap();
                t.replace_range(p..p + 2, "\u{e9}");
                t
            }
            _ => {
                // upper-case hex is still hex: accepted or rejected, but no panic
                String::from_utf8(s).unwrap().to_uppercase()
            }
        };
        rep.eval(fnv(text.as_bytes()), true);
        match catch(|| Hll8::from_hex_string(&text).is_ok()) {
            Ok(ok) => {
                if ok && variant <= 3 {
                    rep.finding(
                        "import-accepts-malformed-hex",
                        &format!("variant {variant}"),
                        json!({"kind":"badhex","text":text}),
                    );
                }
                rep.count("malformed_hex_tried");
            }
            // totality on malformed text is C03's clause, not C20's
            Err(p) => rep.finding_for(
                "C03",
                &format!("hll-import-panic@{}:{}", p.location, panic_class(&p.message)),
                &format!("from_hex_string panicked on malformed text (variant {variant}): {}", p.message),
                json!({"kind":"badhex","text":text}),
            ),
        }
    }

    // 2. offsets
    for offset in (24..=40usize).chain([41, 255, 256, 1 << 20, usize::MAX - 1, usize::MAX]) {
        let e = rng.arr32();
        rep.eval(fnv_parts(&[&e, &(offset as u64).to_le_bytes()]), true);
        match catch(|| {
            let mut h = Hll8::new();
            let r = h.add_element(&e, offset);
            (r.is_ok(), h.to_hex_string())
        }) {
            Ok((ok, hs)) => {
                if ok {
                    rep.finding(
                        "add-element-accepts-bad-offset",
                        &format!("offset {offset} accepted"),
                        json!({"kind":"offset","offset":offset as u64,"elem":hex(&e)}),
                    );
                } else if hs != hexstate(&[0u8; 256]) {
                    rep.finding(
                        "rejected-add-changed-sketch",
                        &format!("offset {offset}"),
                        json!({"kind":"offset","offset":offset as u64,"elem":hex(&e)}),
                    );
                }
                rep.count("bad_offsets_tried");
            }
            Err(p) => rep.finding(
                &format!("add-panic@{}:{}", p.location, panic_class(&p.message)),
                &format!("offset {offset}: {}", p.message),
                json!({"kind":"offset","offset":offset as u64,"elem":hex(&e)}),
            ),
        }
    }

    // 3. laws at every valid offset
    let per_offset = if thorough { 850 } else { 10 };
    for offset in 0..24usize {
        for _ in 0..per_offset {
            law_instance(&mut rng, &mut rep, offset);
            rep.count("law_instances");
        }
    }
    rep.sample(json!({"family":"law","offsets":"0..=23","instances_per_offset":per_offset,
        "laws":["commutative","associative","idempotent","union==merge","add idempotent","add order-independent","empty neutral"]}));

    // 4. accuracy envelope
    let runs = if thorough { 30 } else { 1 };
    // (the million-element runs need ranks well above 9: a rank computation that stops after one byte saturates there)
    for n in [100usize, 300, 1000, 3000, 10_000, 100_000, 1_000_000, 3_000_000] {
        if n >= 1_000_000 && is_debug_build() {
            continue; // release leg only (time)
        }
        let runs_n = if n >= 100_000 && thorough { 6 } else if n >= 1_000_000 { 1 } else { runs };
        for k in 0..runs_n {
            let offset = if k == 0 { 16 } else { rng.usize_below(24) };
            accuracy(&mut rng, &mut rep, n, offset);
        }
    }
    let streams = match (thorough, is_debug_build()) {
        (true, false) => 20000,
        (true, true) => 1000,
        (false, false) => 600,
        (false, true) => 120,
    };
    let mut excursions: Vec<String> = vec![];
    for k in 0..streams {
        let offset = if k % 3 == 0 { 16 } else { rng.usize_below(24) };
        if let Some(x) = accuracy_stream(&mut rng, &mut rep, 9000, offset) {
            excursions.push(x);
        }
    }
    // "stays within the envelope" is decided as a rate: on the unchanged tree about one stream in 60,000 has a single
    // check beyond 40% (largest seen: 45% at n=556, right at the hand-over between the two corrections); a defect in
    // a correction shows up in more than one stream per hundred. Violation: at least 3 streams and more than one per
    // thousand.
    let allowed = (streams as usize / 1000).max(2);
    if excursions.len() > allowed {
        rep.finding(
            "estimate-outside-envelope-rate",
            &format!("{} of {} random streams left the 40% envelope at some cardinality between 100 and 9000 (allowed: {allowed}); first: {}", excursions.len(), streams, excursions.iter().take(3).cloned().collect::<Vec<_>>().join(" | ")),
            json!({"kind":"accuracy-rate","streams":streams}),
        );
    }
    rep.sample(json!({"family":"accuracy","n":[100,300,1000,3000,10000,100000],
        "max_rel_err_permille": rep.counter("accuracy_max_rel_err_permille")}));
    rep
}

pub fn replay(v: &serde_json::Value, rep: &mut Report) {
    match v["kind"].as_str().unwrap_or("") {
        "state" => {
            let b = unhex(v["hex"].as_str().unwrap_or("")).unwrap_or_default();
            if b.len() == 256 {
                let mut regs = [0u8; 256];
                regs.copy_from_slice(&b);
                check_state(rep, &regs, "replay");
            }
        }
        "accuracy" => {
            let mut rng = Rng(0);
            // accuracy() draws the sub-seed from rng; reproduce by pre-loading it
            let sub = v["subseed"].as_u64().unwrap_or(0);
            struct Fixed(u64);
            let _ = Fixed(sub);
            // emulate: craft an rng whose next_u64 is `sub` is not possible; re-run inline
            let n = v["n"].as_u64().unwrap_or(0) as usize;
            let offset = v["offset"].as_u64().unwrap_or(0) as usize;
            let mut h = Hll8::new();
            let mut r2 = Rng::new(sub);
            for _ in 0..n {
                let e = r2.arr32();
                let _ = h.add_element(&e, offset);
            }
            let _ = &mut rng;
            match catch(|| h.estimate_count()) {
                Ok(est) => {
                    let err = (est as f64 - n as f64).abs() / n as f64;
                    rep.eval(1, true);
                    if !(err < 0.40) {
                        rep.finding("estimate-outside-envelope", &format!("n={n} est={est}"), v.clone());
                    }
                }
                Err(p) => rep.finding(
                    &format!("estimate-panic@{}:{}", p.location, panic_class(&p.message)),
                    &p.message,
                    v.clone(),
                ),
            }
        }
        other => {
            rep.notes.push(format!("replay kind {other}: re-run the check with the recorded seed"));
        }
    }
}
