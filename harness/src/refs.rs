//! C15 — Event references stay valid and unchanged while the store lives.
//!
//! References are taken by offset, by id and from queries; after every later store (own thread
//! and another thread) a FRESH reference for the same offset is obtained and the addresses are
//! compared. The stale reference is never read through. A moved address is corroborated with
//! /proc/self/maps (old range unmapped, or mapped to something else).
#![allow(dead_code)]

use crate::dbh::workdir;
use crate::model::Ev;
use crate::sem::*;
use crate::util::*;
use pocket_db::{ScreenResult, Store};
use pocket_types::{Event, Id};
use serde_json::json;
use std::sync::Arc;

struct Tracked {
    addr: usize,
    len: usize,
    offset: u64,
    copy: Vec<u8>,
    how: &'static str,
    growths_at_take: u64,
    /// length of the backing file read BEFORE the reference was obtained
    flen_at_take: u64,
}

thread_local! {
    /// set on the monitored thread during the threaded histories: its stores linger right after taking the write lock
    static LINGER: std::cell::Cell<bool> = const { std::cell::Cell::new(false) };
}

fn map_len(store: &Store) -> u64 {
    std::fs::metadata(store.dir().join("event.map")).map(|m| m.len()).unwrap_or(0)
}

fn maps_lookup(addr: usize, len: usize) -> String {
    let txt = std::fs::read_to_string("/proc/self/maps").unwrap_or_default();
    for line in txt.lines() {
        let mut it = line.split_whitespace();
        let range = it.next().unwrap_or("");
        let mut rr = range.split('-');
        let lo = usize::from_str_radix(rr.next().unwrap_or("0"), 16).unwrap_or(0);
        let hi = usize::from_str_radix(rr.next().unwrap_or("0"), 16).unwrap_or(0);
        if addr >= lo && addr + len <= hi {
            let path = line.split_whitespace().nth(5).unwrap_or("[anonymous]");
            return if path.ends_with("event.map") { "still-mapped-to-event.map".into() } else { format!("mapped-to-something-else({path})") };
        }
    }
    "unmapped".into()
}

fn addr_of_ref(e: &Event) -> usize {
    e as *const Event as *const u8 as usize
}

fn check_tracked(rep: &mut Report, store: &Store, tracked: &mut [Tracked], growths: u64, ctx: &serde_json::Value) -> bool {
    let mut all_stable = true;
    for t in tracked.iter_mut() {
        rep.count("reference_checks");
        let flen_before = map_len(store);
        let fresh = match catch(|| store.get_event_by_offset(t.offset).map(|e| (addr_of_ref(e), e.as_bytes().to_vec()))) {
            Ok(Ok(x)) => x,
            Ok(Err(e)) => {
                rep.finding("reference-target-unreadable", &format!("offset {} (reference taken {}) is no longer readable: {e}", t.offset, t.how), ctx.clone());
                return false;
            }
            Err(p) => {
                rep.finding("reference-target-unreadable", &format!("offset {}: panic {}", t.offset, p.message), ctx.clone());
                return false;
            }
        };
        // the bytes the reference denotes (read through the FRESH reference, never the stale one)
        if fresh.1 != t.copy {
            rep.finding(
                if fresh.0 == t.addr { "bytes-changed-at-stable-address" } else { "bytes-changed" },
                &format!(
                    "the event at offset {} (reference taken {}) no longer has the bytes it had: {} of {} bytes differ (first at {:?}); growth steps since the reference was taken: {}",
                    t.offset, t.how,
                    fresh.1.iter().zip(t.copy.iter()).filter(|(a, b)| a != b).count() + fresh.1.len().abs_diff(t.copy.len()),
                    t.copy.len(),
                    fresh.1.iter().zip(t.copy.iter()).position(|(a, b)| a != b),
                    growths - t.growths_at_take
                ),
                ctx.clone(),
            );
            return false;
        }
        if fresh.0 != t.addr {
            all_stable = false;
            let maps = maps_lookup(t.addr, t.len);
            let class = maps.split('(').next().unwrap_or("").to_string();
            rep.count(&format!("stale_reference_now:{class}"));
            // (the file length is read after the fresh address was obtained: another thread may have grown the file since
            // the caller last looked)
            let flen_now = map_len(store);
            if growths > t.growths_at_take || flen_now > t.flen_at_take {
                rep.finding(
                    "base-moved-after-growth",
                    &format!(
                        "a reference taken {} (offset {}, {} bytes) pointed at {:#x}; after {} further growth step(s) of the backing file the live mapping has that offset at {:#x}; the old range is now {maps}. (addresses compared; the stale reference was not read through)",
                        t.how, t.offset, t.len, t.addr, growths - t.growths_at_take, fresh.0
                    ),
                    ctx.clone(),
                );
            } else {
                rep.finding(
                    "address-changed-without-growth",
                    &format!("reference taken {} at offset {}: {:#x} -> {:#x} although the file did not grow; old range {maps}", t.how, t.offset, t.addr, fresh.0),
                    ctx.clone(),
                );
            }
            // keep watching this offset from its new address, so that content changes and further
            // moves are still seen
            t.addr = fresh.0;
            t.growths_at_take = growths;
            t.flen_at_take = flen_before;
        }
    }
    all_stable
}

pub fn run(args: &Args) -> Report {
    let mut rep = Report::new("C15", &args.leg(), &args.tier(), args.seed());
    let debug = is_debug_build();
    // In the threaded histories the monitored thread lingers for a fraction of a millisecond right after it has got the
    // write lock and before its store has any effect, so that stores of the other thread regularly ENTER (and take
    // whatever they read before queueing for the lock) while a store of this thread is in progress.
    pocket_db::verif::set_point_handler(Some(Arc::new(|name: &'static str| {
        if name == "store.after_write_txn" && LINGER.with(|l| l.get()) {
            std::thread::sleep(std::time::Duration::from_micros(400));
        }
    })));
    let n = if args.thorough() { if debug { 400 } else { 40 } } else if debug { 20 } else { 6 };
    let only: Option<u64> = args.get("index").and_then(|s| s.parse().ok());
    for i in 0..n {
        if let Some(x) = only {
            if x != i {
                continue;
            }
        }
        let threaded = i % 3 == 2;
        let mut rng = Rng::new(args.seed().wrapping_mul(0x9E37_79B9) ^ 0xC15 ^ i << 24);
        let dir = workdir().join(format!("c15_{}_{i}", args.seed()));
        let _ = std::fs::remove_dir_all(&dir);
        std::fs::create_dir_all(&dir).unwrap();
        let mut store_slot: Option<Arc<Store>> = match Store::new(&dir, vec![]) {
            Ok(s) => Some(Arc::new(s)),
            Err(e) => {
                rep.inconclusive.push(format!("open failed: {e}"));
                continue;
            }
        };
        // In the threaded histories a second thread keeps submitting, concurrently with everything below, requests that
        // the store refuses (deletion requests of another author naming a stored event, duplicates) and a few small
        // events of its own: stores "by any other thread", successful or not, must leave referenced bytes alone.
        let noise_ids: Arc<std::sync::Mutex<Vec<[u8; 32]>>> = Arc::new(std::sync::Mutex::new(vec![]));
        // the other thread's stores may run while this thread STORES, but not while it reads through references (a growth
        // triggered from there at that moment is the recorded finding of C14, and would take the monitor down with it)
        let noise_quiet = Arc::new(std::sync::Mutex::new(()));
        let noise_stop = Arc::new(std::sync::atomic::AtomicBool::new(false));
        let noise_counts = Arc::new((std::sync::atomic::AtomicU64::new(0), std::sync::atomic::AtomicU64::new(0)));
        LINGER.with(|l| l.set(threaded));
        let noise = if threaded {
            let (st, ids, stop, counts, quiet) = (store_slot.as_ref().unwrap().clone(), noise_ids.clone(), noise_stop.clone(), noise_counts.clone(), noise_quiet.clone());
            let seed = args.seed() ^ i << 8;
            Some(std::thread::spawn(move || {
                use std::sync::atomic::Ordering::Relaxed;
                let mut r = Rng::new(seed ^ 0x401CE);
                let mut n = 0u64;
                while !stop.load(Relaxed) {
                    n += 1;
                    let target = { ids.lock().unwrap_or_else(|e| e.into_inner()).last().cloned() };
                    let sem = match (n % 3, target) {
                        (0, _) | (_, None) => SemEvent { id: r.arr32(), pubkey: crate::dbgen::author(8), sig: [2; 64], kind: 1, created_at: 5, tags: vec![], content: "n".into() },
                        (_, Some(t)) => SemEvent { id: r.arr32(), pubkey: crate::dbgen::author(9), sig: [2; 64], kind: 5, created_at: 5, tags: vec![vec!["e".into(), hex(&r.arr32())], vec!["e".into(), hex(&t)]], content: String::new() },
                    };
                    if let Some(ev) = Ev::new(sem) {
                        let _g = quiet.lock().unwrap_or_else(|e| e.into_inner());
                        match catch(|| st.store_event(&pocket_types::OwnedEvent(ev.bytes.clone())).is_ok()) {
                            Ok(true) => counts.0.fetch_add(1, Relaxed),
                            _ => counts.1.fetch_add(1, Relaxed),
                        };
                    }
                    std::thread::sleep(std::time::Duration::from_micros(150));
                }
            }))
        } else {
            None
        };
        let content_len = if debug { *rng.pick(&[0usize, 40, 200, 350, 700]) } else { 60_000 + rng.usize_below(4000) };
        // enough stores to cross at least three growth steps
        let nstores = if debug { 60 } else { 230 };
        let mut tracked: Vec<Tracked> = vec![];
        let mut growths = 0u64;
        let mut last_len = std::fs::metadata(dir.join("event.map")).map(|m| m.len()).unwrap_or(0);
        let ctx = json!({"kind":"refs","seed":args.seed(),"index":i,"threaded":threaded});
        let mut ok = true;
        let mut events: Vec<std::rc::Rc<Ev>> = vec![];
        // Steps: mostly plain notes; every few stores one that makes the store remove an earlier event
        // (a newer replaceable / parameterised event, or a deletion request naming a tracked one), now and
        // then an explicit removal; and "tail" steps, where the event a reference was just taken to is
        // the newest thing in the map when it is replaced or removed, followed by further appends
        // (references to removed events stay valid too, and their space is not handed out again).
        struct Step {
            ev: std::rc::Rc<Ev>,
            track: bool,
            remove_after: bool,
        }
        let mut created = 1000u64;
        let mut mk = |rng: &mut Rng, author_n: u8, kind: u16, tags: Vec<Vec<String>>, extra: usize| {
            created += 1;
            Ev::new(SemEvent { id: rng.arr32(), pubkey: crate::dbgen::author(author_n), sig: [1; 64], kind, created_at: created, tags, content: "x".repeat(content_len + extra) }).unwrap()
        };
        let mut stores_done = 0usize;
        let mut expires_at: Option<u64> = None;
        'hist: for k in 0..nstores {
            // In every third history the store object is replaced once by one opened on the same files after a writer
            // "died in the middle of a copy": bytes of an unfinished event lie beyond the end marker (the state C13's
            // mid-copy kills leave behind). References are taken afresh from the new store object; the property is
            // about them, whatever the file went through before.
            if k == 20 && i % 3 == 0 {
                tracked.clear();
                match Arc::try_unwrap(store_slot.take().unwrap()) {
                    Ok(s) => {
                        let _ = s.verif_close();
                    }
                    Err(_) => {
                        rep.inconclusive.push("store still shared at the reopen step".into());
                        break 'hist;
                    }
                }
                let path = dir.join("event.map");
                if let Ok(f) = std::fs::OpenOptions::new().read(true).write(true).open(&path) {
                    use std::os::unix::fs::FileExt;
                    let mut hdr = [0u8; 8];
                    if f.read_exact_at(&mut hdr, 0).is_ok() {
                        let end = u64::from_le_bytes(hdr);
                        let flen = f.metadata().map(|m| m.len()).unwrap_or(0);
                        let aligned = (end + 7) / 8 * 8;
                        let n = 300u64.min(flen.saturating_sub(aligned));
                        if n > 0 {
                            let junk: Vec<u8> = (0..n).map(|j| 0xE1u8.wrapping_add(j as u8 % 7)).collect();
                            let _ = f.write_all_at(&junk, aligned);
                            rep.count("reopens_on_a_map_with_an_unfinished_copy_beyond_the_end_marker");
                        }
                    }
                }
                store_slot = match Store::new(&dir, vec![]) {
                    Ok(s) => Some(Arc::new(s)),
                    Err(e) => {
                        rep.inconclusive.push(format!("reopen failed: {e}"));
                        break 'hist;
                    }
                };
            }
            let store: &Arc<Store> = store_slot.as_ref().unwrap();
            let shape = k % 7;
            let author_n = (k % 3) as u8;
            let (kind, mut tags): (u16, Vec<Vec<String>>) = match shape {
                2 => (10002, vec![]),
                4 => (30023, vec![vec!["d".into(), "x".into()]]),
                // ephemeral kinds are stored (and referenced by offset) like any other, only never indexed
                5 => {
                    rep.count("referenced_ephemeral_events");
                    (if k % 2 == 0 { 20001 } else { 29999 }, vec![vec!["t".into(), "r".into()]])
                }
                _ => (1, vec![vec!["t".into(), "r".into()]]),
            };
            let mut kind = kind;
            if shape == 6 {
                if let Some(victim) = events.iter().rev().find(|v| v.sem.pubkey == crate::dbgen::author(author_n)) {
                    kind = 5;
                    tags = vec![vec!["e".into(), hex(&victim.sem.id)]];
                }
            }
            // an event that is already stored arrives again, byte for byte except for its signature (a re-signed copy has
            // the same id): whatever the store answers, the stored - and referenced - bytes stay as they are
            if k % 13 == 12 {
                if let Some(old) = events.get(k / 3) {
                    let mut sem = old.sem.clone();
                    sem.sig = [0x77; 64];
                    if let Some(twin) = Ev::new(sem) {
                        let _ = store.store_event(&pocket_types::OwnedEvent(twin.bytes.clone()));
                        rep.count("resubmissions_with_another_signature");
                    }
                }
            }
            // an event of exactly the size of one that was just removed comes next (its space must not be handed out)
            let mut same_size_as_removed: Option<std::rc::Rc<Ev>> = None;
            if k % 11 == 10 {
                if let Some(victim) = events.get(k / 2) {
                    let _ = store.remove_event(Id::from_bytes(victim.sem.id));
                    rep.count("explicit_removals");
                    let mut twin = victim.sem.clone();
                    twin.id = rng.arr32();
                    twin.kind = 1;
                    twin.content = "y".repeat(twin.content.len());
                    same_size_as_removed = Ev::new(twin);
                }
            }
            if kind != 1 {
                rep.count("stores_that_remove_an_earlier_event");
            }
            let mut steps = vec![];
            if let Some(t) = same_size_as_removed {
                steps.push(Step { ev: t, track: false, remove_after: false });
                rep.count("stores_of_the_size_of_a_just_removed_event");
            }
            steps.push(Step { ev: mk(&mut rng, author_n, kind, tags, k % 9), track: k % 4 == 0, remove_after: false });
            // one event larger than two growth steps of the backing file early in the history (the map grows by
            // several steps at once), referenced, with ordinary growth steps following it
            // an event sized so that it ends within the last bytes of the backing file as it is now (0..7 bytes before
            // the end, or exactly at it): referenced, and then the file grows under the following stores
            if debug && !threaded && (k == 9 || k == 23 || k == 41) {
                let path = dir.join("event.map");
                if let Ok(f) = std::fs::File::open(&path) {
                    use std::os::unix::fs::FileExt;
                    let mut hdr = [0u8; 8];
                    if f.read_exact_at(&mut hdr, 0).is_ok() {
                        let end = u64::from_le_bytes(hdr) as usize;
                        let flen = f.metadata().map(|m| m.len() as usize).unwrap_or(0);
                        let start = (end + 7) / 8 * 8;
                        let slack = [0usize, 3, 7][(k / 9) % 3];
                        let base = Ev::new(SemEvent { id: rng.arr32(), pubkey: crate::dbgen::author(7), sig: [1; 64], kind: 1, created_at: 997, tags: vec![], content: String::new() }).unwrap();
                        if flen > start + base.bytes.len() + slack {
                            let clen = flen - slack - start - base.bytes.len();
                            let e = Ev::new(SemEvent { id: rng.arr32(), pubkey: crate::dbgen::author(7), sig: [1; 64], kind: 1, created_at: 997, tags: vec![], content: "z".repeat(clen) }).unwrap();
                            if start + e.bytes.len() + slack == flen {
                                steps.insert(0, Step { ev: e, track: true, remove_after: false });
                                rep.count("referenced_events_ending_in_the_last_word_of_the_file");
                            }
                        }
                    }
                }
            }
            if k == 6 && (debug || i % 3 == 1) {
                let big = if debug { 5_300 } else { 9_500_000 };
                let e = Ev::new(SemEvent { id: rng.arr32(), pubkey: crate::dbgen::author(5), sig: [1; 64], kind: 1, created_at: 999, tags: vec![], content: "L".repeat(big) }).unwrap();
                steps.push(Step { ev: e, track: true, remove_after: false });
                rep.count("events_larger_than_two_growth_steps");
            }
            // one event whose NIP-40 expiration time passes while it is referenced (second history only: it costs a
            // real sleep of about three seconds); nothing may touch its bytes when it is looked up after that
            if i == 1 && k == 5 {
                let now = std::time::SystemTime::now().duration_since(std::time::UNIX_EPOCH).map(|d| d.as_secs()).unwrap_or(0);
                expires_at = Some(now + 2);
                let e = Ev::new(SemEvent { id: rng.arr32(), pubkey: crate::dbgen::author(6), sig: [1; 64], kind: 1, created_at: 998, tags: vec![vec!["expiration".into(), format!("{}", now + 2)]], content: "expiring".into() }).unwrap();
                steps.push(Step { ev: e, track: true, remove_after: false });
            }
            if i == 1 && k == 30 {
                if let Some(t) = expires_at {
                    loop {
                        let now = std::time::SystemTime::now().duration_since(std::time::UNIX_EPOCH).map(|d| d.as_secs()).unwrap_or(u64::MAX);
                        if now > t {
                            break;
                        }
                        std::thread::sleep(std::time::Duration::from_millis(200));
                    }
                    rep.count("references_to_an_event_that_expired_while_referenced");
                }
            }
            match k % 10 {
                // referenced event is the newest in the map when a newer event at its address replaces it
                3 => {
                    let (tk, tt): (u16, Vec<Vec<String>>) = if k % 20 == 3 { (10007, vec![]) } else { (30077, vec![vec!["d".into(), "tail".into()]]) };
                    steps.push(Step { ev: mk(&mut rng, 3, tk, tt.clone(), 1), track: true, remove_after: false });
                    steps.push(Step { ev: mk(&mut rng, 3, tk, tt, 1), track: false, remove_after: false }); // same size as the one it replaces
                    steps.push(Step { ev: mk(&mut rng, 4, 1, vec![], 3), track: false, remove_after: false });
                    rep.count("tail_replacements_of_a_referenced_event");
                }
                // referenced event is the newest in the map when it is removed explicitly; then appends follow
                7 => {
                    steps.push(Step { ev: mk(&mut rng, 4, 1, vec![], 4), track: true, remove_after: true });
                    steps.push(Step { ev: mk(&mut rng, 4, 1, vec![], 4), track: false, remove_after: false }); // same size as the removed one
                    rep.count("tail_removals_of_a_referenced_event");
                }
                _ => {}
            }
            for st in steps {
                let e = st.ev.clone();
                events.push(e.clone());
                // the store happens on this thread or on another one
                let res = if threaded {
                    let s2 = store.clone();
                    let b = e.bytes.clone();
                    std::thread::spawn(move || {
                        let ev = pocket_types::OwnedEvent(b);
                        s2.store_event(&ev).map_err(|e| format!("{e}"))
                    })
                    .join()
                    .unwrap_or(Err("thread panicked".into()))
                } else {
                    let ev = pocket_types::OwnedEvent(e.bytes.clone());
                    // (a store working on damaged bytes may panic: the references are looked at before anything else)
                    match catch(|| store.store_event(&ev).map_err(|e| format!("{e}"))) {
                        Ok(r) => r,
                        Err(p) => Err(format!("store_event panicked: {} at {}", p.message, p.location)),
                    }
                };
                let off = match res {
                    Ok(o) => o,
                    Err(err) => {
                        // every event of this history is acceptable on its own; before giving up, look at what the
                        // references taken so far denote now
                        let _reading = noise_quiet.lock().unwrap_or_else(|e| e.into_inner());
                        if check_tracked(&mut rep, store, &mut tracked, growths, &ctx) || !(rep.has_finding("bytes-changed") || rep.has_finding("bytes-changed-at-stable-address") || rep.has_finding("reference-target-unreadable")) {
                            rep.inconclusive.push(format!("store failed: {err}"));
                        }
                        break 'hist;
                    }
                };
                stores_done += 1;
                if e.sem.kind == 1 {
                    noise_ids.lock().unwrap_or_else(|e| e.into_inner()).push(e.sem.id);
                }
                let len_now = std::fs::metadata(dir.join("event.map")).map(|m| m.len()).unwrap_or(0);
                if len_now > last_len {
                    growths += 1;
                    last_len = len_now;
                }
                // all references taken so far must still be where the live mapping has their offsets
                let _reading = noise_quiet.lock().unwrap_or_else(|e| e.into_inner());
                if !check_tracked(&mut rep, &store, &mut tracked, growths, &ctx) {
                    ok = false;
                    if rep.has_finding("bytes-changed") || rep.has_finding("bytes-changed-at-stable-address") || rep.has_finding("reference-target-unreadable") {
                        break 'hist;
                    }
                }
                // take new references (three ways), recording address, length and a byte copy
                let fl = map_len(store);
                // the offset this very store returned must be readable (else there is nothing to hold a reference to)
                if let Err(e) = store.get_event_by_offset(off) {
                    rep.finding("reference-target-unreadable", &format!("offset {off}, just returned by store_event, cannot be read: {e}"), ctx.clone());
                    break 'hist;
                }
                if st.track && tracked.len() < 300 {
                    if let Ok(r) = store.get_event_by_offset(off) {
                        tracked.push(Tracked { addr: addr_of_ref(r), len: r.len(), offset: off, copy: r.as_bytes().to_vec(), how: "by offset", growths_at_take: growths, flen_at_take: fl });
                    }
                    if let Ok(Some(r)) = store.get_event_by_id(Id::from_bytes(e.sem.id)) {
                        tracked.push(Tracked { addr: addr_of_ref(r), len: r.len(), offset: off, copy: r.as_bytes().to_vec(), how: "by id", growths_at_take: growths, flen_at_take: fl });
                    }
                    let f = SemFilter { ids: vec![e.sem.id], ..SemFilter::empty() }.to_owned().unwrap();
                    if let Ok((evs, _)) = store.find_events(&f, true, 0, 0, |_| ScreenResult::Match) {
                        for r in evs {
                            tracked.push(Tracked { addr: addr_of_ref(r), len: r.len(), offset: off, copy: r.as_bytes().to_vec(), how: "from a query", growths_at_take: growths, flen_at_take: fl });
                        }
                    }
                }
                if !st.track && tracked.len() < 900 {
                    // every other stored event is referenced once, by offset
                    if let Ok(r) = store.get_event_by_offset(off) {
                        tracked.push(Tracked { addr: addr_of_ref(r), len: r.len(), offset: off, copy: r.as_bytes().to_vec(), how: "by offset", growths_at_take: growths, flen_at_take: fl });
                    }
                }
                drop(_reading);
                if st.remove_after {
                    let _ = store.remove_event(Id::from_bytes(e.sem.id));
                    rep.count("explicit_removals");
                }
            }
        }
        rep.count_n("stores", stores_done as u64);
        rep.eval(fnv(format!("{i}{content_len}{threaded}").as_bytes()), growths >= 1);
        rep.count_n("growth_events", growths);
        rep.count_n("references_tracked", tracked.len() as u64);
        rep.count(if threaded { "histories_with_stores_on_another_thread" } else { "histories_single_threaded" });
        if ok {
            rep.count("histories_without_any_move");
        }
        if i < 2 {
            rep.sample(json!({"history": i, "stores": events.len(), "growths": growths, "references_tracked": tracked.len(), "threaded": threaded, "all_addresses_stable": ok}));
        }
        drop(tracked);
        LINGER.with(|l| l.set(false));
        noise_stop.store(true, std::sync::atomic::Ordering::Relaxed);
        if let Some(h) = noise {
            let _ = h.join();
            rep.count_n("concurrent_stores_by_another_thread_accepted", noise_counts.0.load(std::sync::atomic::Ordering::Relaxed));
            rep.count_n("concurrent_stores_by_another_thread_refused", noise_counts.1.load(std::sync::atomic::Ordering::Relaxed));
        }
        if let Some(st) = store_slot {
            if let Ok(s) = Arc::try_unwrap(st) {
                let _ = s.verif_close();
            }
        }
        let _ = std::fs::remove_dir_all(&dir);
    }
    if rep.counter("growth_events") == 0 && only.is_none() {
        rep.inconclusive.push("no growth event observed".into());
    }
    if only.is_none() && !rep.has_finding("bytes-changed") && !rep.has_finding("bytes-changed-at-stable-address") && !rep.has_finding("reference-target-unreadable") {
        rep.require("tail_replacements_of_a_referenced_event", "no referenced event was replaced while it was the newest in the map");
        rep.require("tail_removals_of_a_referenced_event", "no referenced event was removed while it was the newest in the map");
        rep.require("concurrent_stores_by_another_thread_refused", "no refused store ran on another thread while references were held");
        rep.require("resubmissions_with_another_signature", "no stored event was resubmitted with another signature");
        rep.require("referenced_ephemeral_events", "no ephemeral event was stored and referenced");
        rep.require("events_larger_than_two_growth_steps", "no event larger than two growth steps was stored");
        if debug {
            rep.require("referenced_events_ending_in_the_last_word_of_the_file", "no referenced event ended within the last word of the backing file");
        }
        rep.require("references_to_an_event_that_expired_while_referenced", "no referenced event passed its expiration time during the run");
    }
    pocket_db::verif::set_point_handler(None);
    rep
}

pub fn replay(v: &serde_json::Value, rep: &mut Report, args: &Args) {
    let mut a = Args { cmd: "c15".into(), kv: args.kv.clone(), pos: vec![] };
    let _ = a.kv.insert("seed".into(), v["seed"].as_u64().unwrap_or(1).to_string());
    let _ = a.kv.insert("index".into(), v["index"].as_u64().unwrap_or(0).to_string());
    let r = run(&a);
    rep.evaluations += r.evaluations;
    for f in r.findings {
        rep.finding_for(&f.prop, &f.signature, &f.detail, f.replay);
    }
}
