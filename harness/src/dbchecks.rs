//! The history-based monitors of pocket-db: C04 C05 C09 C10 C11 C12 C16 C17 C18.
#![allow(dead_code)]

use crate::dbgen::*;
use crate::dbh::*;
use crate::model::*;
use crate::sem::*;
use crate::util::*;
use serde_json::json;
use std::rc::Rc;
use std::sync::atomic::{AtomicI64, Ordering};
use std::sync::{Arc, Mutex};

/// relative weights of the operations in a profile
#[derive(Clone, Debug)]
pub struct Mix {
    pub store_new: u32,
    pub resubmit: u32,
    pub del_own: u32,
    pub del_foreign: u32,
    pub del_mixed: u32,
    pub remove: u32,
    pub vanish: u32,
    pub reopen: u32,
    pub rebuild: u32,
    pub table: u32,
    pub max_del_tags: usize,
}

impl Mix {
    pub fn base() -> Mix {
        Mix { store_new: 60, resubmit: 8, del_own: 6, del_foreign: 3, del_mixed: 3, remove: 6, vanish: 1, reopen: 3, rebuild: 0, table: 0, max_del_tags: 6 }
    }
}

pub fn one_step(eng: &mut Eng, rng: &mut Rng, p: &Pools, mix: &Mix) {
    if eng.jump_at == Some(eng.steps) {
        eng.jump_at = None;
        eng.jump_map();
    }
    let w = [mix.store_new, mix.resubmit, mix.del_own, mix.del_foreign, mix.del_mixed, mix.remove, mix.vanish, mix.reopen, mix.rebuild, mix.table];
    match rng.weighted(&w) {
        0 => {
            let e = gen_event(rng, p, eng, None);
            if let Some(ev) = Ev::new(e) {
                let _ = eng.store(&ev);
            }
        }
        1 => {
            if !eng.all.is_empty() {
                let ev = rng.pick(&eng.all).clone();
                // now and then the re-submission is a re-signed copy (same id, other signature bytes) of an event that
                // is currently stored: a duplicate like any other, and the stored bytes stay what they are
                if rng.chance(1, 4) && eng.model.r.contains_key(&ev.sem.id) {
                    let mut sem = ev.sem.clone();
                    sem.sig = [0x77; 64];
                    if let Some(twin) = Ev::new(sem) {
                        eng.rep.count("resubmissions_with_another_signature");
                        let _ = eng.store(&twin);
                        return;
                    }
                }
                let _ = eng.store(&ev);
            }
        }
        k @ (2 | 3 | 4) => {
            let who = *rng.pick(&p.authors);
            let mut style = match k {
                2 => DelStyle::Own,
                3 => DelStyle::WithForeign,
                _ => DelStyle::Mixed,
            };
            let mut max_tags = mix.max_del_tags;
            if k == 3 && rng.chance(1, 3) {
                // a foreign target as the k-th tag after k-1 own / ineffective ones, k on both
                // sides of plausible batch sizes
                style = DelStyle::OwnThenForeign;
                let k1 = *rng.pick(&[0usize, 1, 2, 3, 5, 8, 15, 16, 17, 31, 32, 33, 34, 48, 63, 64, 65, 100]);
                max_tags = 1000 + if mix.max_del_tags > 6 { k1 } else { k1.min(5) };
            }
            let e = gen_deletion(rng, p, eng, who, style, max_tags);
            if let Some(ev) = Ev::new(e) {
                let _ = eng.store(&ev);
            }
        }
        5 => {
            let id = if !eng.all.is_empty() && rng.chance(5, 6) { rng.pick(&eng.all).sem.id } else { rng.arr32() };
            eng.remove(&id);
        }
        6 => {
            let pk = if rng.chance(5, 6) { *rng.pick(&p.authors) } else { author(8) };
            eng.vanish(&pk);
        }
        7 => eng.reopen(rng.chance(1, 6)),
        8 => eng.rebuild(),
        _ => {
            let t = rng.usize_below(3);
            let klen = rng.usize_below(6);
            let key = rng.bytes(klen + 1);
            if rng.chance(4, 5) {
                let vlen = rng.usize_below(40);
                let val = rng.bytes(vlen);
                eng.table_put(t, &key, &val);
            } else {
                eng.table_del(t, &key);
            }
        }
    }
}

fn base_flags() -> Flags {
    Flags { verify_each_step: true, ..Flags::default() }
}

fn hist_rng(seed: u64, salt: u64, index: u64) -> Rng {
    Rng::new(seed.wrapping_mul(0x9E37_79B9_7F4A_7C15) ^ salt ^ index.wrapping_mul(0xD1B5_4A32_D192_ED03))
}

fn finish_history(eng: &mut Eng, nontrivial: bool) {
    let h = fnv(eng.log.join("\n").as_bytes());
    let growths = eng.growths;
    let reopens = eng.reopens;
    let rebuilds = eng.rebuilds;
    let steps = eng.steps;
    eng.rep.eval(h, nontrivial);
    eng.rep.count_n("steps", steps);
    eng.rep.count_n("file_growth_events", growths);
    eng.rep.count_n("reopens", reopens);
    eng.rep.count_n("rebuilds", rebuilds);
    eng.rep.count("histories");
    if eng.aborted {
        eng.rep.count("histories_abandoned");
    }
    eng.finish();
}

/// Enumerated short histories on one address: every sequence of four (thorough: five) operations out of "store a new
/// version created at 1 / 2 / 3" and "own address-deletion request created at 1 / 2 / 3", for a replaceable and a
/// parameterised address, forty addresses per store, each under the oracles of the property named. Every refusal
/// (Replaced, Deleted, ties) happens with and without a marker on the address, older and newer than the refused event.
fn enumerated_address_histories(rep: &mut Report, args: &Args, prop: &'static str, cmd: &str, flags: Flags) {
    let len = if args.thorough() { 5usize } else { 4 };
    let total = 6usize.pow(len as u32);
    let per_eng = 40usize;
    let a = author(0);
    for param in [false, true] {
        let mut n = 0usize;
        let mut chunk = 0u64;
        while n < total {
            let index = 1_000_000 + if param { 500_000 } else { 0 } + chunk;
            chunk += 1;
            let upto = (n + per_eng).min(total);
            if let Some(x) = only_index(args) {
                if x != index {
                    n = upto;
                    continue;
                }
            }
            let mut rng = hist_rng(args.seed(), 0xC12E, index);
            let mut eng = Eng::new(rep, prop, cmd, args.seed(), index, flags.clone(), 0);
            eng.jump_at = None;
            for h in n..upto {
                let (kind, d): (u16, String) = if param { (30023, format!("e{h}")) } else { (10_000 + (h % 9_999) as u16, String::new()) };
                let mut code = h;
                for _ in 0..len {
                    let sym = code % 6;
                    code /= 6;
                    let t = 1 + (sym % 3) as u64;
                    let sem = if sym < 3 {
                        SemEvent { id: rng.arr32(), pubkey: a, sig: [0x51; 64], kind, created_at: t, tags: if param { vec![vec!["d".into(), d.clone()]] } else { vec![] }, content: String::new() }
                    } else {
                        SemEvent { id: rng.arr32(), pubkey: a, sig: [0x51; 64], kind: 5, created_at: t, tags: vec![vec!["a".into(), format!("{kind}:{}:{d}", hex(&a))]], content: String::new() }
                    };
                    if eng.aborted {
                        break;
                    }
                    if let Some(ev) = Ev::new(sem) {
                        let _ = eng.store(&ev);
                    }
                }
                eng.rep.count("enumerated_address_histories");
            }
            finish_history(&mut eng, true);
            n = upto;
        }
    }
}

/// Enumerated short histories around one event X of author 0: every sequence of five (thorough: six) operations out of
/// "store X", "own deletion request naming X", "deletion request of another author naming X (and an absent id)",
/// "remove_event(X)", "store a newer plain event of author 0" - forty such X per store, under the oracles of the
/// property named. Refusals of every kind meet every state X can be in (absent, stored, removed, marked).
fn enumerated_id_histories(rep: &mut Report, args: &Args, prop: &'static str, cmd: &str, flags: Flags) {
    let len = if args.thorough() { 6usize } else { 5 };
    let total = 5usize.pow(len as u32);
    let per_eng = 40usize;
    let (a, b) = (author(0), author(1));
    let mut n = 0usize;
    let mut chunk = 0u64;
    while n < total {
        let index = 2_000_000 + chunk;
        chunk += 1;
        let upto = (n + per_eng).min(total);
        if let Some(x) = only_index(args) {
            if x != index {
                n = upto;
                continue;
            }
        }
        let mut rng = hist_rng(args.seed(), 0x1DE, index);
        let mut eng = Eng::new(rep, prop, cmd, args.seed(), index, flags.clone(), 0);
        eng.jump_at = None;
        for h in n..upto {
            let x = match Ev::new(SemEvent { id: rng.arr32(), pubkey: a, sig: [0x51; 64], kind: 1, created_at: 50, tags: vec![vec!["t".into(), "x".into()]], content: String::new() }) {
                Some(x) => x,
                None => continue,
            };
            let mut code = h;
            for _ in 0..len {
                let sym = code % 5;
                code /= 5;
                if eng.aborted {
                    break;
                }
                let mk = |rng: &mut Rng, pk: Id32, kind: u16, tags: Vec<Vec<String>>| Ev::new(SemEvent { id: rng.arr32(), pubkey: pk, sig: [0x51; 64], kind, created_at: 60, tags, content: String::new() });
                match sym {
                    0 => {
                        let _ = eng.store(&x);
                    }
                    1 => {
                        if let Some(d) = mk(&mut rng, a, 5, vec![vec!["e".into(), hex(&x.sem.id)]]) {
                            let _ = eng.store(&d);
                        }
                    }
                    2 => {
                        let absent = rng.arr32();
                        if let Some(d) = mk(&mut rng, b, 5, vec![vec!["e".into(), hex(&absent)], vec!["e".into(), hex(&x.sem.id)]]) {
                            let _ = eng.store(&d);
                        }
                    }
                    3 => eng.remove(&x.sem.id),
                    _ => {
                        if let Some(e) = mk(&mut rng, a, 1, vec![]) {
                            let _ = eng.store(&e);
                        }
                    }
                }
            }
            eng.rep.count("enumerated_id_histories");
        }
        finish_history(&mut eng, true);
        n = upto;
    }
}

fn only_index(args: &Args) -> Option<u64> {
    args.get("index").and_then(|s| s.parse().ok())
}

// ------------------------------------------------------------------------------------------ C04

pub fn c04(args: &Args) -> Report {
    let mut rep = Report::new("C04", &args.leg(), &args.tier(), args.seed());
    let debug = is_debug_build();
    let n = if args.thorough() { if debug { 3000 } else { 90 } } else if debug { 250 } else { 12 };
    let small = args.flag("small"); // valgrind leg: a few short histories
    let n = if small { 3 } else { n };
    for i in 0..n {
        if let Some(x) = only_index(args) {
            if x != i {
                continue;
            }
        }
        let mut rng = hist_rng(args.seed(), 0xC04, i);
        let mut p = Pools::basic();
        // event sizes: every alignment residue, and sizes straddling the growth chunk
        let chunk: usize = if debug { 2048 } else { 4 * 1024 * 1024 };
        p.content_lens = vec![0, 1, 2, 3, 4, 5, 6, 7, 8, 9, 15, 16, 17, 100, 333];
        if debug {
            for k in [0usize, 1, 7, 8, 9, 60] {
                p.content_lens.push(chunk - 160 - k);
                p.content_lens.push(chunk - 160 + k);
            }
            p.content_lens.push(2 * chunk + 5);
            p.content_lens.push(3 * chunk);
        } else if i % 3 == 0 {
            // release: large events so that the 4 MiB map grows at least twice in this history
            p.content_lens = vec![60_000, 60_001, 60_007, 65_536, 100_000, 7];
            if args.thorough() && i % 6 == 0 {
                p.content_lens.push(chunk + 4096);
            }
            if small {
                // a few short histories only: make sure the 4 MiB map grows within 25 steps
                p.content_lens = vec![1_200_000, 1_500_000, 7];
            }
        }
        p.max_extra_tags = 2;
        // every kind class and its boundaries (only 20000..=29999 may be missing from the id index)
        p.kinds.extend_from_slice(&[19999, 20000, 29999, 30000, 30001, 39999, 40000, 65535, 9999, 10000]);
        let mut mix = Mix::base();
        mix.reopen = 6;
        mix.del_foreign = 0;
        mix.del_mixed = 0;
        mix.rebuild = if i % 4 == 0 { 1 } else { 0 };
        let mut flags = base_flags();
        flags.reread_offsets = true;
        let steps = if small { 25 } else if !debug && i % 3 == 0 { 170 } else { 60 + rng.usize_below(120) };
        let mut eng = Eng::new(&mut rep, "C04", "c04", args.seed(), i, flags, 0);
        if small {
            eng.jump_at = None;
        }
        for s in 0..steps {
            if eng.aborted {
                break;
            }
            // in short histories, reopen at every position in turn
            if steps < 90 && s == (i as usize * 7) % steps.max(1) {
                eng.reopen(false);
            }
            // an event sized so that it ends exactly at the end of the backing file (a completely used map: the end
            // marker equals the file length), and a reopen at that very moment
            if debug && !small && i % 3 == 1 && s == steps / 2 && !eng.aborted {
                use std::os::unix::fs::FileExt;
                let mut sized: Option<Rc<Ev>> = None;
                if let Ok(f) = std::fs::File::open(eng.dir.join("event.map")) {
                    let mut hdr = [0u8; 8];
                    if f.read_exact_at(&mut hdr, 0).is_ok() {
                        let end = u64::from_le_bytes(hdr) as usize;
                        let flen = f.metadata().map(|m| m.len() as usize).unwrap_or(0);
                        let start = (end + 7) / 8 * 8;
                        let mk = |rng: &mut Rng, clen: usize| Ev::new(SemEvent { id: rng.arr32(), pubkey: author(2), sig: [0x51; 64], kind: 1, created_at: 777, tags: vec![], content: "f".repeat(clen) });
                        if let Some(base) = mk(&mut rng, 0) {
                            let target = if flen > start + base.bytes.len() { flen } else { flen + chunk };
                            sized = mk(&mut rng, target - start - base.bytes.len());
                        }
                    }
                }
                if let Some(ev) = sized {
                    let _ = eng.store(&ev);
                    eng.rep.count("reopens_on_a_completely_used_map");
                    eng.reopen(false);
                }
            }
            one_step(&mut eng, &mut rng, &p, &mix);
        }
        if !eng.aborted {
            eng.reopen(false);
            eng.check_offsets();
        }
        let nt = eng.growths > 0 || eng.reopens > 0;
        if i < 2 {
            let s = json!({"history": i, "steps": eng.steps, "growths": eng.growths, "reopens": eng.reopens, "tail": eng.log.iter().rev().take(6).rev().cloned().collect::<Vec<_>>()});
            eng.rep.sample(s);
        }
        finish_history(&mut eng, nt);
    }
    if rep.counter("file_growth_events") == 0 && only_index(args).is_none() {
        rep.inconclusive.push("no file growth was observed in this leg".into());
    }
    if only_index(args).is_none() {
        rep.require("file_growth_events", "no file growth observed");
        rep.require("reopens", "no reopen");
        rep.require("offset_rereads", "no offset re-read");
        if !small {
            rep.require("histories_continued_above_a_large_offset", "no history continued above a large offset");
            if debug {
                rep.require("reopens_on_a_completely_used_map", "no reopen happened on a completely used map");
            }
        }
    }
    rep
}

// ------------------------------------------------------------------------------------------ C05

/// Result sets far larger than any plausible internal batch size: one author with many events; every plan that can
/// serve them must return all of them, newest first, and exactly the newest `limit` under a large limit.
fn c05_bulk(rep: &mut Report, args: &Args) {
    use pocket_db::{ScreenResult, Store};
    let n = if args.thorough() { 5000usize } else { 1300 };
    let dir = workdir().join(format!("c05_bulk_{}", args.seed()));
    let _ = std::fs::remove_dir_all(&dir);
    if std::fs::create_dir_all(&dir).is_err() {
        return;
    }
    let store = match Store::new(&dir, vec![]) {
        Ok(s) => s,
        Err(_) => return,
    };
    let mut rng = hist_rng(args.seed(), 0xC05B, 0);
    let a = author(0);
    let mut ids: Vec<(u64, Id32)> = vec![];
    for k in 0..n {
        let t = 10_000 + k as u64;
        let e = Ev::new(SemEvent { id: rng.arr32(), pubkey: a, sig: [0x51; 64], kind: if k % 2 == 0 { 1 } else { 7 }, created_at: t, tags: vec![vec!["t".into(), "bulk".into()]], content: String::new() }).unwrap();
        if store.store_event(&pocket_types::OwnedEvent(e.bytes.clone())).is_ok() {
            ids.push((t, e.sem.id));
        }
    }
    ids.sort_by(|x, y| y.0.cmp(&x.0));
    let rp = json!({"kind":"bulk-query","seed":args.seed(),"events":n});
    for (nm, f) in [
        ("author", SemFilter { authors: vec![a], ..SemFilter::empty() }),
        ("author+kind", SemFilter { authors: vec![a], kinds: vec![1, 7], ..SemFilter::empty() }),
        ("author+tag", SemFilter { authors: vec![a], tags: vec![("t".into(), vec!["bulk".into()])], ..SemFilter::empty() }),
        ("kind+tag", SemFilter { kinds: vec![1, 7], tags: vec![("t".into(), vec!["bulk".into()])], ..SemFilter::empty() }),
        ("tag", SemFilter { tags: vec![("t".into(), vec!["bulk".into()])], ..SemFilter::empty() }),
        ("scrape", SemFilter { kinds: vec![1, 7], ..SemFilter::empty() }),
        ("ids", SemFilter { ids: ids.iter().map(|x| x.1).collect(), ..SemFilter::empty() }),
    ] {
        for limit in [None, Some((n - 100) as u32)] {
            let mut g = f.clone();
            g.limit = limit;
            let want: Vec<Id32> = ids.iter().take(limit.map(|l| l as usize).unwrap_or(usize::MAX)).map(|x| x.1).collect();
            let o = match g.to_owned() {
                Ok(o) => o,
                Err(_) => continue,
            };
            rep.eval(fnv(format!("bulk{nm}{limit:?}").as_bytes()), true);
            rep.count("bulk_queries");
            match catch(|| store.find_events(&o, true, 0, 0, |_| ScreenResult::Match).map(|(evs, _)| evs.iter().map(|e| { let mut x = [0u8; 32]; x.copy_from_slice(e.id().as_slice()); x }).collect::<Vec<Id32>>())) {
                Ok(Ok(got)) => {
                    if got != want {
                        let first_bad = got.iter().zip(want.iter()).position(|(x, y)| x != y);
                        rep.finding(&format!("bulk-query-wrong:{nm}"), &format!("{} stored events of one author, limit {:?}: returned {} events, expected {} (first difference at position {:?})", n, limit, got.len(), want.len(), first_bad), rp.clone());
                    }
                }
                Ok(Err(e)) => rep.finding(&format!("bulk-query-failed:{nm}"), &format!("{e}"), rp.clone()),
                Err(p) => rep.finding(&format!("query-panic:{}@{}", panic_class(&p.message), p.location), &p.message, rp.clone()),
            }
        }
    }
    let _ = store.verif_close();
    let _ = std::fs::remove_dir_all(&dir);
}

pub fn c05(args: &Args) -> Report {
    let mut rep = Report::new("C05", &args.leg(), &args.tier(), args.seed());
    if only_index(args).is_none() {
        c05_bulk(&mut rep, args);
    }
    let n = if args.thorough() { 4000 } else { 250 };
    let per_state = if args.thorough() { 60 } else { 30 };
    // Directed battery: one designed state (events that match a constraint only through a later tag of the same
    // name, several current events of one author and parameterised kind that share a later d value, ties, an event
    // matching two listed values) queried with EVERY combination of clauses - ids, authors, kinds, one #d value,
    // two #d values, #t, since, until - times three limits, i.e. every index plan with every further clause on top.
    if only_index(args).is_none() {
        let mut rng = hist_rng(args.seed(), 0xC05D, 0);
        let mut eng = Eng::new(&mut rep, "C05", "c05directed", args.seed(), 9_999_999, base_flags(), 0);
        let a0 = author(0);
        let a1 = author(1);
        let mk = |rng: &mut Rng, pk: Id32, kind: u16, t: u64, tags: Vec<Vec<&str>>| SemEvent {
            id: rng.arr32(), pubkey: pk, sig: [0x51; 64], kind, created_at: t,
            tags: tags.into_iter().map(|t| t.into_iter().map(|s| s.to_string()).collect()).collect(), content: String::new(),
        };
        let evs = vec![
            mk(&mut rng, a0, 30023, 100, vec![vec!["d", "x"], vec!["t", "a"]]),
            mk(&mut rng, a0, 30023, 101, vec![vec!["d", "y"], vec!["d", "x"], vec!["t", "b"]]),
            mk(&mut rng, a0, 30023, 102, vec![vec!["d", "z"], vec!["t", "a"], vec!["t", "b"]]),
            mk(&mut rng, a1, 30023, 101, vec![vec!["d", "x"]]),
            mk(&mut rng, a0, 30024, 101, vec![vec!["d", "x"], vec!["t", "a"]]),
            mk(&mut rng, a0, 1, 100, vec![vec!["d", "x"], vec!["t", "a"]]),
            mk(&mut rng, a0, 1, 100, vec![vec!["t", "a"], vec!["d", "q"], vec!["d", "x"]]),
            mk(&mut rng, a1, 1, 102, vec![vec!["t", "b"], vec!["t", "a"]]),
            mk(&mut rng, a0, 10002, 101, vec![vec!["d", "x"]]),
            mk(&mut rng, a1, 7, 103, vec![vec!["d", "y"], vec!["t", "c"]]),
        ];
        let mut stored: Vec<Id32> = vec![];
        for e in evs {
            if let Some(ev) = Ev::new(e) {
                stored.push(ev.sem.id);
                let _ = eng.store(&ev);
            }
        }
        let mut nq = 0u64;
        for mask in 1u32..256 {
            if eng.aborted {
                break;
            }
            let mut f = SemFilter::empty();
            if mask & 1 != 0 {
                f.ids = vec![stored[0], stored[1], stored[3], stored[6], [0xEE; 32]];
            }
            if mask & 2 != 0 {
                f.authors = vec![a0];
            }
            if mask & 4 != 0 {
                f.kinds = vec![30023, 1];
            }
            if mask & 8 != 0 && mask & 16 == 0 {
                f.tags.push(("d".into(), vec!["x".into()]));
            }
            if mask & 16 != 0 {
                f.tags.push(("d".into(), vec!["x".into(), "y".into()]));
            }
            if mask & 32 != 0 {
                f.tags.push(("t".into(), vec!["a".into(), "b".into()]));
            }
            if mask & 64 != 0 {
                f.since = Some(101);
            }
            if mask & 128 != 0 {
                f.until = Some(101);
            }
            for limit in [None, Some(1u32), Some(2)] {
                let mut g = f.clone();
                g.limit = limit;
                let _ = eng.check_query(&g, 0, (true, 0, 0), &["C05"], "directed clause combination");
                nq += 1;
            }
        }
        eng.rep.count_n("directed_clause_combination_queries", nq);
        eng.finish();
    }
    for i in 0..n {
        if let Some(x) = only_index(args) {
            if x != i {
                continue;
            }
        }
        let mut rng = hist_rng(args.seed(), 0xC05, i);
        let mut p = Pools::basic();
        // few authors / kinds / tag values: selective but non-trivial filters; clustered times with many ties
        p.kinds = vec![1, 1, 7, 0, 10002, 30023, 1059, 5];
        p.times = vec![100, 100, 101, 102, 102, 102, 255, 256, 65535, 65536, (1 << 32) - 1, 1 << 32];
        if i % 8 == 2 {
            p.times = vec![0, 0, 1, 1, 2, 100, u64::MAX - 1, u64::MAX];
        }
        p.content_lens = vec![0, 5];
        if i % 2 == 1 {
            // dense variant: few letters and values, many events per (letter, value) and per author
            p.letters = vec!["t", "e"];
            p.tvals = vec!["a".into(), "b".into(), "c".into(), long_d(190, "q1"), long_d(190, "q2")];
            p.kinds = vec![1, 1, 1, 7, 7, 30023];
            p.times = vec![100, 101, 102, 103, 104, 105, 106, 107, 108, 109, 110, 255, 256, 65536];
            p.max_extra_tags = 2;
        }
        let mut mix = Mix::base();
        mix.store_new = 80;
        mix.reopen = 1;
        let mut eng = Eng::new(&mut rep, "C05", "c05", args.seed(), i, base_flags(), 0);
        let steps = 20 + rng.usize_below(60);
        let checkpoints = [steps / 3, 2 * steps / 3, steps - 1];
        for s in 0..steps {
            if eng.aborted {
                break;
            }
            one_step(&mut eng, &mut rng, &p, &mix);
            if checkpoints.contains(&s) && !eng.aborted {
                let _ = per_state;
                for q in 0..(if args.thorough() { 28 } else { 14 }) {
                    // every index plan (q / 2 mod 7), alternately with free-form filters and with filters
                    // derived from what is stored (several values / authors / kinds with matches each,
                    // limit cutting in the middle)
                    let plan = (q / 2) % 7;
                    let f = if q % 2 == 0 { gen_filter(&mut rng, &p, &eng, plan) } else { gen_filter_from_state(&mut rng, &eng, plan) };
                    let screen_mode = *rng.pick(&[0u8, 0, 0, 1, 1, 4, 2, 3]);
                    // scraping allowances in all combinations
                    let allow = match rng.below(5) {
                        0 | 1 => (true, 0, 0),
                        2 => (false, 10, 0),
                        3 => (false, 0, 3600),
                        _ => (false, 0, 0),
                    };
                    let _ = eng.check_query(&f, screen_mode, allow, &["C05"], "generated");
                    // the same constraint through another index: add every stored id
                    if q % 5 == 0 && f.ids.is_empty() {
                        let mut g = f.clone();
                        g.ids = eng.all.iter().map(|e| e.sem.id).collect();
                        let _ = eng.check_query(&g, screen_mode, (true, 0, 0), &["C05"], "same filter + all ids");
                    }
                    if q % 7 == 0 && f.authors.is_empty() && !f.tags.is_empty() {
                        let mut g = f.clone();
                        g.authors = p.authors.clone();
                        let _ = eng.check_query(&g, screen_mode, (true, 0, 0), &["C05"], "same filter + all authors");
                    }
                    if i < 1 && q < 2 {
                        let s = json!({"filter": f.describe(), "screen_mode": screen_mode, "qualifying": eng.model.qualifying(&f, &|e| screen_of(screen_mode, e)).len(), "retrievable": eng.model.r.len()});
                        eng.rep.sample(s);
                    }
                }
                // the never-panics clause for constraint names outside NIP-01's single letters
                for name in ["", "ab", "\u{e9}"] {
                    let f = SemFilter { tags: vec![(name.to_string(), vec!["a".into()])], ..SemFilter::empty() };
                    if let QRes::Panic(pi) = eng.run_query(&f, 0, (true, 0, 0)) {
                        eng.flag(&["C05"], &format!("query-panic:{}@{}", panic_class(&pi.message), pi.location), &format!("constraint name {name:?}: {}", pi.message));
                    }
                    eng.rep.count("odd_constraint_name_queries");
                }
            }
        }
        // after the history: half of what is retrievable is removed (plain removal), then every plan is asked again -
        // an event that is gone must be gone from every index that can serve a query
        if !eng.aborted && i % 2 == 0 {
            let ids: Vec<Id32> = eng.model.r.keys().cloned().collect();
            // (the per-step state comparison belongs to other properties and would end the history at the first
            // divergence; here the queries are what is judged)
            eng.flags.verify_each_step = false;
            for (k, id) in ids.iter().enumerate() {
                if k % 2 == 0 && !eng.aborted {
                    eng.remove(id);
                }
            }
            for q in 0..14 {
                if eng.aborted {
                    break;
                }
                let plan = q % 7;
                let f = if q < 7 { gen_filter_from_state(&mut rng, &eng, plan) } else { gen_filter(&mut rng, &p, &eng, plan) };
                let _ = eng.check_query(&f, 0, (true, 0, 0), &["C05"], "after removing half of the events");
                eng.rep.count("queries_after_bulk_removal");
            }
        }
        let nt = eng.model.r.len() >= 3;
        finish_history(&mut eng, nt);
    }
    // every index plan must have been exercised, otherwise this run says nothing about it
    if only_index(args).is_none() {
        let mut gaps = vec![];
        for plan in ["ids", "author+kind", "author+tag", "kind+tag", "tag", "author", "scrape"] {
            if rep.counter(&format!("query_plan:{plan}")) == 0 {
                gaps.push(format!("index plan '{plan}' was never exercised"));
            }
        }
        if rep.counter("queries_refused_as_scraping") == 0 {
            gaps.push("no query was refused as scraping".to_string());
        }
        if rep.counter("queries_cut_by_limit") == 0 {
            gaps.push("no query was cut by its limit".to_string());
        }
        if rep.counter("directed_clause_combination_queries") == 0 {
            gaps.push("the directed clause-combination battery did not run".to_string());
        }
        if !gaps.is_empty() {
            let _ = rep.extra.insert("coverage_gaps".into(), json!(gaps));
        }
    }
    rep
}

// ------------------------------------------------------------------------------------------ C09

pub fn c09(args: &Args) -> Report {
    let mut rep = Report::new("C09", &args.leg(), &args.tier(), args.seed());
    // exhaustive classification of all kinds
    if only_index(args).is_none() {
        for k in 0..=65535u32 {
            let kind = pocket_types::Kind::from_u16(k as u16);
            let want = (k == 0 || k == 3 || (10000..20000).contains(&k), (20000..30000).contains(&k), (30000..40000).contains(&k));
            let got = (kind.is_replaceable(), kind.is_ephemeral(), kind.is_parameterized_replaceable());
            if want != got {
                rep.finding("kind-classification-wrong", &format!("kind {k}: (replaceable, ephemeral, parameterized) = {got:?}, NIP-01 says {want:?}"), json!({"kind":"kind-class","k":k}));
            }
        }
        rep.count_n("kinds_classified", 65536);
        rep.exhaustive = true;
    }
    let n = if args.thorough() { 8000 } else { 450 };
    for i in 0..n {
        if let Some(x) = only_index(args) {
            if x != i {
                continue;
            }
        }
        let mut rng = hist_rng(args.seed(), 0xC09, i);
        let mut p = Pools::basic();
        p.authors = vec![author(0), author_twin(0), author(1)];
        p.kinds = vec![0, 1, 2, 3, 4, 9999, 10000, 10001, 19999, 20000, 29999, 30000, 30000, 30001, 39999, 40000, 65535];
        if i % 2 == 0 {
            p.kinds = vec![0, 3, 10000, 30000, 30000, 30001, 1];
        }
        // both ends of the time axis too: holders and rivals created at 0 / 1, and at the largest values
        p.times = if i % 5 == 3 { vec![100, 101, 4_102_444_800, 4_102_444_801, u64::MAX - 1, u64::MAX] } else if i % 5 == 1 { vec![0, 0, 1, 1, 2, 100] } else { vec![100, 101, 102, 103] };
        p.dvals = vec!["".into(), "x".into(), "x:".into(), "x:y".into(), "x\u{0}".into(), "x\u{0}\u{0}".into(), "y".into(), long_d(181, "a"), long_d(182, "a"), long_d(183, "ab"), long_d(183, "ac"), long_d(400, "z1"), long_d(400, "z2")];
        p.content_lens = vec![0, 3];
        p.max_extra_tags = if i % 3 == 0 { 3 } else { 1 };
        let mut mix = Mix::base();
        mix.store_new = 70;
        mix.resubmit = 18;
        mix.del_own = 5;
        mix.del_foreign = 0;
        mix.del_mixed = 0;
        mix.remove = 6;
        mix.vanish = 0;
        let mut flags = base_flags();
        flags.address_invariant = true;
        let mut eng = Eng::new(&mut rep, "C09", "c09", args.seed(), i, flags, 0);
        let steps = 30 + rng.usize_below(50);
        for _ in 0..steps {
            if eng.aborted {
                break;
            }
            one_step(&mut eng, &mut rng, &p, &mix);
        }
        // by query too: author+kind and #d
        if !eng.aborted {
            let addrs: Vec<AddrKey> = eng.addrs.iter().cloned().collect();
            for a in addrs.iter().take(30) {
                if !(is_replaceable(a.kind) || is_param(a.kind)) {
                    continue;
                }
                let f = SemFilter { authors: vec![a.author], kinds: vec![a.kind], ..SemFilter::empty() };
                let _ = eng.check_query(&f, 0, (true, 0, 0), &["C09"], "author+kind of an address");
                if is_param(a.kind) {
                    if let Ok(d) = String::from_utf8(a.d.clone()) {
                        let f = SemFilter { authors: vec![a.author], kinds: vec![a.kind], tags: vec![("d".into(), vec![d])], ..SemFilter::empty() };
                        let _ = eng.check_query(&f, 0, (true, 0, 0), &["C09"], "#d of an address");
                    }
                }
            }
        }
        let nt = eng.addrs.len() >= 2;
        if i < 2 {
            let s = json!({"history": i, "addresses": eng.addrs.len(), "tail": eng.log.iter().rev().take(8).rev().cloned().collect::<Vec<_>>()});
            eng.rep.sample(s);
        }
        finish_history(&mut eng, nt);
    }
    {
        let mut flags = base_flags();
        flags.address_invariant = true;
        enumerated_address_histories(&mut rep, args, "C09", "c09", flags);
    }
    if only_index(args).is_none() {
        rep.require("enumerated_address_histories", "the enumerated address histories did not run");
        rep.require("store_outcome:OLD", "no older-than-holder submission");
        rep.require("store_outcome:EQ", "no equal-timestamp submission");
        rep.require("address_invariant_checks", "address invariant never checked");
    }
    rep
}

// ------------------------------------------------------------------------------------------ C10

/// A request that arrives while every LMDB reader slot is taken (`Store::read_txn` handed out until it fails - a busy
/// relay): internal lookups of the request's targets may fail. Whatever the request returns, the other author's
/// events stay retrievable and neither they nor their addresses carry a marker once the readers are gone.
fn c10_readers_exhausted(rep: &mut Report, args: &Args) {
    use pocket_db::Store;
    use pocket_types::{Addr, Id, Pubkey};
    let dir = workdir().join(format!("c10_readers_{}", args.seed()));
    let _ = std::fs::remove_dir_all(&dir);
    if std::fs::create_dir_all(&dir).is_err() {
        return;
    }
    let store = match Store::new(&dir, vec![]) {
        Ok(s) => s,
        Err(e) => {
            rep.inconclusive.push(format!("readers-exhausted scenario: open failed: {e}"));
            return;
        }
    };
    let mut rng = hist_rng(args.seed(), 0xC10F, 0);
    let (victim, attacker) = (author(0), author(1));
    let mk = |rng: &mut Rng, pk: Id32, kind: u16, t: u64, tags: Vec<Vec<String>>| Ev::new(SemEvent { id: rng.arr32(), pubkey: pk, sig: [0x51; 64], kind, created_at: t, tags, content: String::new() }).unwrap();
    let x = mk(&mut rng, victim, 1, 100, vec![]);
    let r = mk(&mut rng, victim, 10002, 100, vec![]);
    let p = mk(&mut rng, victim, 30023, 100, vec![vec!["d".into(), "x".into()]]);
    let own = mk(&mut rng, attacker, 1, 100, vec![]);
    for e in [&x, &r, &p, &own] {
        let _ = store.store_event(&pocket_types::OwnedEvent(e.bytes.clone()));
    }
    let absent = rng.arr32();
    let requests = vec![
        mk(&mut rng, attacker, 5, 200, vec![vec!["e".into(), hex(&x.sem.id)]]),
        mk(&mut rng, attacker, 5, 201, vec![vec!["e".into(), hex(&absent)], vec!["e".into(), hex(&x.sem.id)], vec!["a".into(), "nonsense".into()]]),
        mk(&mut rng, attacker, 5, 202, vec![vec!["e".into(), hex(&own.sem.id)], vec!["e".into(), hex(&r.sem.id)], vec!["e".into(), hex(&p.sem.id)]]),
        mk(&mut rng, attacker, 5, 203, vec![vec!["a".into(), format!("10002:{}:", hex(&victim))], vec!["a".into(), format!("30023:{}:x", hex(&victim))]]),
    ];
    let mut outcomes = vec![];
    let held;
    {
        let mut readers = vec![];
        while readers.len() < 4096 {
            match store.read_txn() {
                Ok(t) => readers.push(t),
                Err(_) => break,
            }
        }
        held = readers.len();
        if held < 4096 {
            rep.count("scenarios_with_every_reader_slot_taken");
        }
        for d in requests.iter() {
            let o = catch(|| store.store_event(&pocket_types::OwnedEvent(d.bytes.clone())).map_err(|e| format!("{e}")));
            outcomes.push(format!("{o:?}").chars().take(90).collect::<String>());
        }
        drop(readers);
    }
    let rp = json!({"kind":"readers-exhausted","seed":args.seed()});
    rep.eval(fnv(b"readers-exhausted"), held < 4096);
    for (nm, e) in [("plain", &x), ("replaceable", &r), ("parameterised", &p)] {
        let id = Id::from_bytes(e.sem.id);
        let there = matches!(store.get_event_by_id(id), Ok(Some(ev)) if ev.as_bytes() == e.bytes.as_slice());
        let marked = !matches!(store.event_is_deleted(id), Ok(false));
        rep.count("foreign_guard_checks_with_reader_slots_exhausted");
        if !there || marked {
            rep.finding(
                &format!("deletion-request-affected-other-author:readers-exhausted:{}", if !there { "unretrievable" } else { "marker" }),
                &format!("{held} read transactions were open when another author's requests arrived ({}); afterwards the victim's {nm} event is retrievable={there}, marked deleted={marked}", outcomes.join(" | ")),
                rp.clone(),
            );
        }
    }
    for (kind, d) in [(10002u16, ""), (30023, "x")] {
        let addr = Addr { kind: kind.into(), author: Pubkey::from_bytes(victim), d: d.as_bytes().to_vec() };
        if !matches!(store.naddr_is_deleted_asof(&addr), Ok(None)) {
            rep.finding("deletion-request-affected-other-author:readers-exhausted:address-marker", &format!("{held} read transactions open; requests: {}; the victim's address {kind}:..:{d} carries a marker", outcomes.join(" | ")), rp.clone());
        }
    }
    let _ = store.verif_close();
    let _ = std::fs::remove_dir_all(&dir);
}

pub fn c10(args: &Args) -> Report {
    let mut rep = Report::new("C10", &args.leg(), &args.tier(), args.seed());
    if only_index(args).is_none() {
        c10_readers_exhausted(&mut rep, args);
    }
    {
        let mut flags = base_flags();
        flags.foreign_delete_guard = true;
        enumerated_id_histories(&mut rep, args, "C10", "c10", flags);
    }
    let n = if args.thorough() { 8000 } else { 450 };
    for i in 0..n {
        if let Some(x) = only_index(args) {
            if x != i {
                continue;
            }
        }
        let mut rng = hist_rng(args.seed(), 0xC10, i);
        let mut p = Pools::basic();
        p.authors = vec![author(0), author_twin(0), author(1)];
        p.kinds = vec![1, 0, 10002, 30023, 30023, 30024, 7];
        p.times = if i % 5 == 3 { vec![100, 101, 4_102_444_800, u64::MAX - 1, u64::MAX] } else if i % 5 == 1 { vec![0, 0, 1, 1, 2, 100] } else { vec![100, 101, 102, 103, 200] };
        p.dvals = vec!["".into(), "x".into(), "y".into(), "x:y".into(), ":".into()];
        p.content_lens = vec![0, 4];
        p.max_extra_tags = 1;
        let mut mix = Mix::base();
        mix.store_new = 50;
        mix.resubmit = 12;
        mix.del_own = 6;
        mix.del_foreign = 22;
        mix.del_mixed = 8;
        mix.remove = 2;
        mix.vanish = 0;
        mix.reopen = 1;
        let mut flags = base_flags();
        flags.foreign_delete_guard = true;
        let mut eng = Eng::new(&mut rep, "C10", "c10", args.seed(), i, flags, 0);
        let steps = 30 + rng.usize_below(50);
        for _ in 0..steps {
            if eng.aborted {
                break;
            }
            one_step(&mut eng, &mut rng, &p, &mix);
        }
        let nt = eng.rep.counter("foreign_guard_checks") > 0;
        if i < 2 {
            let s = json!({"history": i, "tail": eng.log.iter().rev().take(8).rev().cloned().collect::<Vec<_>>()});
            eng.rep.sample(s);
        }
        finish_history(&mut eng, nt);
    }
    if only_index(args).is_none() {
        rep.require("foreign_guard_checks", "no kind-5 request was guarded");
        rep.require("store_outcome:FOREIGN", "no request with a foreign target");
    }
    rep
}

// ------------------------------------------------------------------------------------------ C11

pub fn c11(args: &Args) -> Report {
    let mut rep = Report::new("C11", &args.leg(), &args.tier(), args.seed());
    let n = if args.thorough() { 8000 } else { 450 };
    for i in 0..n {
        if let Some(x) = only_index(args) {
            if x != i {
                continue;
            }
        }
        let mut rng = hist_rng(args.seed(), 0xC11, i);
        let mut p = Pools::basic();
        p.authors = vec![author(0), author_twin(0), author(1)];
        p.kinds = vec![1, 0, 3, 10002, 30023, 30023, 30024];
        p.times = if i % 5 == 4 { vec![60, 80, (1 << 32) + 100, (1 << 32) + 120, (1 << 40) + 1] } else if i % 5 == 1 { vec![0, 0, 1, 1, 2, 3] } else { vec![60, 80, 100, 120, 140] };
        p.dvals = vec!["".into(), "x".into(), "x:y".into(), "x:y:z".into(), ":".into(), "https://example.com/a/1".into(), "https".into(), "x\u{0}".into(), long_d(181, "a"), long_d(182, "a"), long_d(183, "ab"), long_d(400, "z")];
        p.content_lens = vec![0, 4];
        p.max_extra_tags = 1;
        let mut mix = Mix::base();
        mix.store_new = 45;
        mix.resubmit = 20;
        mix.del_own = 25;
        mix.del_foreign = 0;
        mix.del_mixed = 0;
        mix.remove = 3;
        mix.vanish = 0;
        mix.reopen = 3;
        mix.rebuild = if i % 3 == 0 { 3 } else { 0 };
        mix.max_del_tags = 3;
        let mut flags = base_flags();
        flags.marker_monotonic = true;
        let mut eng = Eng::new(&mut rep, "C11", "c11", args.seed(), i, flags, 0);
        let steps = 30 + rng.usize_below(50);
        for _ in 0..steps {
            if eng.aborted {
                break;
            }
            one_step(&mut eng, &mut rng, &p, &mix);
        }
        let nt = !eng.model.a.is_empty() || !eng.model.d.is_empty();
        if i < 2 {
            let s = json!({"history": i, "address_markers": eng.model.a.len(), "id_markers": eng.model.d.len(), "tail": eng.log.iter().rev().take(8).rev().cloned().collect::<Vec<_>>()});
            eng.rep.sample(s);
        }
        finish_history(&mut eng, nt);
    }
    {
        let mut flags = base_flags();
        flags.marker_monotonic = true;
        enumerated_address_histories(&mut rep, args, "C11", "c11", flags.clone());
        enumerated_id_histories(&mut rep, args, "C11", "c11", flags);
    }
    if only_index(args).is_none() {
        rep.require("enumerated_address_histories", "the enumerated address histories did not run");
        rep.require("marker_monotonicity_checks", "marker monotonicity never checked");
        rep.require("store_outcome:DEL", "no store of a covered event");
        rep.require("reopens", "no reopen");
        rep.require("rebuilds", "no rebuild");
    }
    rep
}

// ------------------------------------------------------------------------------------------ C12

static FAIL_ARMED: Mutex<Option<String>> = Mutex::new(None);
static FAIL_COUNTDOWN: AtomicI64 = AtomicI64::new(-1);
static FAIL_FIRED: AtomicI64 = AtomicI64::new(0);

fn install_fail_handler() {
    pocket_db::verif::set_fail_handler(Some(Arc::new(|name: &'static str| {
        let armed = FAIL_ARMED.lock().unwrap();
        if armed.as_deref() == Some(name) {
            let c = FAIL_COUNTDOWN.fetch_sub(1, Ordering::SeqCst);
            if c == 0 {
                let _ = FAIL_FIRED.fetch_add(1, Ordering::SeqCst);
                return true;
            }
        }
        false
    })));
}

fn arm_failure(name: &str, nth: i64) {
    *FAIL_ARMED.lock().unwrap() = Some(name.to_string());
    FAIL_COUNTDOWN.store(nth, Ordering::SeqCst);
}

fn disarm_failure() {
    *FAIL_ARMED.lock().unwrap() = None;
    FAIL_COUNTDOWN.store(-1, Ordering::SeqCst);
}

pub const FAIL_STAGES: [&str; 6] = ["store.after_preremove", "store.after_append", "store.after_index", "delete.after_tag", "remove.between_deindex", "store.before_commit"];

/// Stores that arrive while every LMDB reader slot is taken: whichever internal lookup fails, a store that returns an
/// error has changed nothing (its targets are still there and unmarked), and one that returns Ok has done all of it.
fn c12_readers_exhausted(rep: &mut Report, args: &Args) {
    use pocket_db::Store;
    use pocket_types::Id;
    let dir = workdir().join(format!("c12_readers_{}", args.seed()));
    let _ = std::fs::remove_dir_all(&dir);
    if std::fs::create_dir_all(&dir).is_err() {
        return;
    }
    let store = match Store::new(&dir, vec![]) {
        Ok(s) => s,
        Err(e) => {
            rep.inconclusive.push(format!("readers-exhausted scenario: open failed: {e}"));
            return;
        }
    };
    let mut rng = hist_rng(args.seed(), 0xC12F, 0);
    let a = author(0);
    let mk = |rng: &mut Rng, kind: u16, t: u64, tags: Vec<Vec<String>>| Ev::new(SemEvent { id: rng.arr32(), pubkey: a, sig: [0x51; 64], kind, created_at: t, tags, content: String::new() }).unwrap();
    let own: Vec<Rc<Ev>> = (0..4).map(|k| mk(&mut rng, 1, 100 + k, vec![])).collect();
    let holder_r = mk(&mut rng, 10002, 100, vec![]);
    let holder_p = mk(&mut rng, 30023, 100, vec![vec!["d".into(), "x".into()]]);
    for e in own.iter().chain([&holder_r, &holder_p]) {
        let _ = store.store_event(&pocket_types::OwnedEvent(e.bytes.clone()));
    }
    // (request, the ids it removes and marks when it succeeds)
    let newer_r = mk(&mut rng, 10002, 200, vec![]);
    let newer_p = mk(&mut rng, 30023, 200, vec![vec!["d".into(), "x".into()]]);
    let calls: Vec<(Rc<Ev>, Vec<Id32>, bool)> = vec![
        (mk(&mut rng, 5, 300, vec![vec!["e".into(), hex(&own[0].sem.id)], vec!["e".into(), hex(&own[1].sem.id)]]), vec![own[0].sem.id, own[1].sem.id], true),
        (newer_r, vec![holder_r.sem.id], false),
        (newer_p, vec![holder_p.sem.id], false),
        (mk(&mut rng, 5, 301, vec![vec!["e".into(), hex(&rng_absent(args))], vec!["e".into(), hex(&own[2].sem.id)]]), vec![own[2].sem.id], true),
    ];
    let mut results = vec![];
    let held;
    {
        let mut readers = vec![];
        while readers.len() < 4096 {
            match store.read_txn() {
                Ok(t) => readers.push(t),
                Err(_) => break,
            }
        }
        held = readers.len();
        for (ev, _, _) in calls.iter() {
            results.push(catch(|| store.store_event(&pocket_types::OwnedEvent(ev.bytes.clone())).map_err(|e| format!("{e}"))));
        }
        drop(readers);
    }
    if held < 4096 {
        rep.count("scenarios_with_every_reader_slot_taken");
    }
    rep.eval(fnv(b"c12-readers-exhausted"), held < 4096);
    let rp = json!({"kind":"readers-exhausted","seed":args.seed()});
    for ((ev, victims, marks), res) in calls.iter().zip(results.iter()) {
        let ok = matches!(res, Ok(Ok(_)));
        let stored = matches!(store.has_event(Id::from_bytes(ev.sem.id)), Ok(true));
        for v in victims {
            let id = Id::from_bytes(*v);
            let there = matches!(store.has_event(id), Ok(true));
            let marked = matches!(store.event_is_deleted(id), Ok(true));
            rep.count("failed_or_completed_stores_checked_with_reader_slots_exhausted");
            if !ok && (!there || marked || stored) {
                rep.finding(
                    "failed-store-changed-state:readers-exhausted",
                    &format!("{held} read transactions open; the store of {} returned {:?}, yet afterwards: request stored={stored}, target {} present={there} marked={marked}", ev.short(), res, hex(&v[..3])),
                    rp.clone(),
                );
            }
            if ok && (there || (*marks && !marked) || !stored) {
                rep.finding(
                    "successful-store-incomplete:readers-exhausted",
                    &format!("{held} read transactions open; the store of {} returned Ok, yet afterwards: stored={stored}, target {} present={there} marked={marked}", ev.short(), hex(&v[..3])),
                    rp.clone(),
                );
            }
        }
    }
    let _ = store.verif_close();
    let _ = std::fs::remove_dir_all(&dir);
}

fn rng_absent(args: &Args) -> Id32 {
    hist_rng(args.seed(), 0xAB5E, 1).arr32()
}

pub fn c12(args: &Args) -> Report {
    let mut rep = Report::new("C12", &args.leg(), &args.tier(), args.seed());
    if only_index(args).is_none() {
        c12_readers_exhausted(&mut rep, args);
    }
    install_fail_handler();
    let n = if args.thorough() { 5000 } else { 250 };
    for i in 0..n {
        if let Some(x) = only_index(args) {
            if x != i {
                continue;
            }
        }
        let mut rng = hist_rng(args.seed(), 0xC12, i);
        let mut p = Pools::basic();
        p.authors = vec![author(0), author_twin(0), author(1)];
        p.kinds = vec![1, 0, 10002, 30023, 30023, 7, 62];
        p.times = if i % 5 == 3 { vec![100, 101, 4_102_444_800, u64::MAX - 1, u64::MAX] } else if i % 5 == 1 { vec![0, 0, 1, 1, 2, 100] } else { vec![100, 101, 102, 103] };
        // a d value too long for an address marker key: the request fails inside LMDB after earlier tags took effect
        p.dvals = vec!["".into(), "x".into(), "y".into(), long_d(480, "big")];
        p.content_lens = vec![0, 4];
        p.max_extra_tags = 2;
        let mut mix = Mix::base();
        mix.store_new = 30;
        mix.resubmit = 30;
        mix.del_own = 8;
        mix.del_foreign = 22;
        mix.del_mixed = 6;
        mix.remove = 2;
        mix.vanish = 0;
        mix.reopen = 0;
        mix.max_del_tags = if i % 4 == 0 { 40 } else { 6 };
        let mut flags = base_flags();
        flags.snapshot_failed_stores = true;
        let mut eng = Eng::new(&mut rep, "C12", "c12", args.seed(), i, flags, 0);
        let steps = 25 + rng.usize_below(35);
        for s in 0..steps {
            if eng.aborted {
                break;
            }
            // injected failures: each stage in turn, at its 1st..3rd occurrence within the call
            if s % 3 == 2 {
                let stage = FAIL_STAGES[(s / 3 + i as usize) % FAIL_STAGES.len()];
                let nth = rng.below(3) as i64;
                let fired_before = FAIL_FIRED.load(Ordering::SeqCst);
                arm_failure(stage, nth);
                // a store shaped so that the stage is reached: plain, replacing, or deleting
                let shape = rng.below(3);
                let e = match shape {
                    0 => gen_event(&mut rng, &p, &eng, Some(1)),
                    1 => {
                        let k = *rng.pick(&[0u16, 10002, 30023]);
                        gen_event(&mut rng, &p, &eng, Some(k))
                    }
                    _ => {
                        let who = *rng.pick(&p.authors);
                        gen_deletion(&mut rng, &p, &eng, who, DelStyle::Own, 5)
                    }
                };
                if let Some(ev) = Ev::new(e) {
                    let out = eng.store(&ev);
                    let fired = FAIL_FIRED.load(Ordering::SeqCst) > fired_before;
                    disarm_failure();
                    if fired {
                        eng.rep.count(&format!("injected_failure_fired:{stage}"));
                        if let Some(o) = out {
                            if o.is_ok() {
                                eng.flag(&["C12"], "injected-failure-ignored", &format!("failure injected at {stage} but store returned Ok"));
                            }
                        }
                    } else {
                        eng.rep.count("injected_failure_not_reached");
                    }
                }
                disarm_failure();
                continue;
            }
            one_step(&mut eng, &mut rng, &p, &mix);
        }
        let nt = eng.rep.counter("failed_stores_snapshotted") > 0;
        if i < 2 {
            let s = json!({"history": i, "tail": eng.log.iter().rev().take(8).rev().cloned().collect::<Vec<_>>()});
            eng.rep.sample(s);
        }
        finish_history(&mut eng, nt);
    }
    {
        let mut flags = base_flags();
        flags.snapshot_failed_stores = true;
        enumerated_address_histories(&mut rep, args, "C12", "c12", flags.clone());
        enumerated_id_histories(&mut rep, args, "C12", "c12", flags);
    }
    pocket_db::verif::set_fail_handler(None);
    if only_index(args).is_none() {
        rep.require("enumerated_address_histories", "the enumerated address histories did not run");
        rep.require("failed_stores_snapshotted", "no failing store snapshotted");
        rep.require("injected_failure_fired:store.after_preremove", "injection stage store.after_preremove never fired");
        rep.require("injected_failure_fired:store.after_append", "injection stage store.after_append never fired");
        rep.require("injected_failure_fired:store.after_index", "injection stage store.after_index never fired");
        rep.require("injected_failure_fired:delete.after_tag", "injection stage delete.after_tag never fired");
        rep.require("injected_failure_fired:remove.between_deindex", "injection stage remove.between_deindex never fired");
        rep.require("injected_failure_fired:store.before_commit", "injection stage store.before_commit never fired");
        rep.require("store_outcome:FOREIGN", "no request with a foreign target");
    }
    rep
}

// ------------------------------------------------------------------------------------------ C16

/// Reopen and rebuild on a large scale: well over a thousand events (a fifth removed again, some replaced, events
/// larger than a growth chunk among them), extra-table rows and markers; every stored id is compared before and after.
fn c16_bulk(rep: &mut Report, args: &Args) {
    use pocket_db::Store;
    use pocket_types::Id;
    let n = if args.thorough() { 6000usize } else { 1500 };
    let dir = workdir().join(format!("c16_bulk_{}", args.seed()));
    let _ = std::fs::remove_dir_all(&dir);
    if std::fs::create_dir_all(&dir).is_err() {
        return;
    }
    let mut store = match Store::new(&dir, vec!["xt_bulk"]) {
        Ok(s) => s,
        Err(_) => return,
    };
    let mut rng = hist_rng(args.seed(), 0xC16B, 0);
    let mut all: Vec<(Id32, Vec<u8>)> = vec![];
    for k in 0..n {
        let kind: u16 = match k % 9 { 3 => 10002, 5 => 30023, _ => 1 };
        let tags = if kind == 30023 { vec![vec!["d".to_string(), format!("slug{}", k % 40)]] } else { vec![vec!["t".to_string(), "bulk".to_string()]] };
        let clen = if k % 97 == 0 { 5000 } else { k % 50 };
        let e = Ev::new(SemEvent { id: rng.arr32(), pubkey: author((k % 3) as u8), sig: [0x51; 64], kind, created_at: 1000 + k as u64, tags, content: "r".repeat(clen) }).unwrap();
        if store.store_event(&pocket_types::OwnedEvent(e.bytes.clone())).is_ok() {
            all.push((e.sem.id, e.bytes.clone()));
        }
        if k % 5 == 4 {
            let victim = all[rng.usize_below(all.len())].0;
            let _ = store.remove_event(Id::from_bytes(victim));
        }
    }
    if let Some(db) = store.extra_table("xt_bulk") {
        if let Ok(mut txn) = store.write_txn() {
            for k in 0..300u32 {
                let _ = db.put(&mut txn, &k.to_be_bytes(), &vec![k as u8; (k % 60) as usize]);
            }
            let _ = txn.commit();
        }
    }
    let view = |s: &Store| -> Vec<Option<Vec<u8>>> { all.iter().map(|(id, _)| s.get_event_by_id(Id::from_bytes(*id)).ok().flatten().map(|e| e.as_bytes().to_vec())).collect() };
    let table = |s: &Store| -> Vec<(Vec<u8>, Vec<u8>)> {
        let mut v = vec![];
        if let (Some(db), Ok(txn)) = (s.extra_table("xt_bulk"), s.read_txn()) {
            if let Ok(it) = db.iter(&txn) {
                for kv in it.flatten() {
                    v.push((kv.0.to_vec(), kv.1.to_vec()));
                }
            }
        }
        v
    };
    let before = view(&store);
    let table_before = table(&store);
    let live: usize = before.iter().filter(|x| x.is_some()).count();
    let live_bytes: usize = before.iter().flatten().map(|b| b.len()).sum();
    for (b, (_, stored)) in before.iter().zip(all.iter()) {
        if let Some(b) = b {
            if b != stored {
                rep.finding("bulk-stored-bytes-differ", "an event read back by id differs from what was stored", json!({"kind":"bulk-lifecycle"}));
                break;
            }
        }
    }
    let rp = json!({"kind":"bulk-lifecycle","seed":args.seed(),"events":n});
    rep.eval(fnv(format!("c16bulk{n}").as_bytes()), live > 0);
    // reopen
    let _ = store.verif_close();
    store = match Store::new(&dir, vec!["xt_bulk"]) {
        Ok(s) => s,
        Err(e) => {
            rep.finding("bulk-reopen-failed", &format!("{e}"), rp);
            return;
        }
    };
    if view(&store) != before || table(&store) != table_before {
        rep.finding("bulk-reopen-changed-state", &format!("{} events stored, {live} live: lookups by id or the extra table differ after close + reopen", all.len()), rp.clone());
    }
    // rebuild
    match catch(move || unsafe { store.rebuild() }) {
        Ok(Ok(s2)) => {
            if view(&s2) != before || table(&s2) != table_before {
                let lost = view(&s2).iter().zip(before.iter()).filter(|(a, b)| a != b).count();
                rep.finding("bulk-rebuild-changed-state", &format!("{} events stored, {live} live: {lost} lookups by id differ after rebuild (or the extra table does)", all.len()), rp.clone());
            }
            if let Ok(st) = s2.stats() {
                if st.event_bytes < 8 + live_bytes || st.event_bytes > 8 + live_bytes + 7 * live {
                    rep.finding("bulk-rebuild-not-compact", &format!("event_bytes {} for {live} live events of {live_bytes} bytes", st.event_bytes), rp.clone());
                }
                if st.index_stats.i_index_entries != live as u64 {
                    rep.finding("bulk-rebuild-index-count", &format!("id index has {} entries, {live} events are live", st.index_stats.i_index_entries), rp.clone());
                }
            }
            if !dir.join("event.map.bak").exists() || !dir.join("lmdb.bak").exists() {
                rep.finding("bulk-rebuild-left-no-backup", "event.map.bak / lmdb.bak missing", rp.clone());
            }
            rep.count_n("bulk_lifecycle_events", all.len() as u64);
            rep.count_n("bulk_lifecycle_live_events", live as u64);
            let _ = s2.verif_close();
        }
        Ok(Err(e)) => rep.finding("bulk-rebuild-failed", &format!("{e}"), rp),
        Err(p) => rep.finding(&format!("rebuild-panic@{}", p.location), &p.message, rp),
    }
    let _ = std::fs::remove_dir_all(&dir);
}

pub fn c16(args: &Args) -> Report {
    let mut rep = Report::new("C16", &args.leg(), &args.tier(), args.seed());
    if only_index(args).is_none() {
        c16_bulk(&mut rep, args);
    }
    let n = if args.thorough() { 5000 } else { 250 };
    for i in 0..n {
        if let Some(x) = only_index(args) {
            if x != i {
                continue;
            }
        }
        let mut rng = hist_rng(args.seed(), 0xC16, i);
        let mut p = Pools::basic();
        p.kinds = vec![1, 7, 0, 10002, 30023, 30024, 20001, 1059];
        p.times = if i % 3 == 2 { vec![100, 101, (1 << 32) + 7, (1 << 33) + 1, u64::MAX - 1] } else if i % 6 == 1 { vec![0, 0, 1, 1, 2, 100] } else { vec![100, 101, 102, 103, 200] };
        p.dvals = vec!["".into(), "x".into(), "x\u{0}".into(), long_d(181, "a"), long_d(182, "b"), long_d(183, "cd"), long_d(200, "e"), long_d(400, "f"), "\u{1}\u{2}\u{ff}".into(), "x:y".into(), ":".into()];
        p.content_lens = vec![0, 5, 300];
        let mut mix = Mix::base();
        mix.store_new = 45;
        mix.resubmit = 10;
        mix.del_own = 12;
        mix.del_foreign = 4;
        mix.del_mixed = 4;
        mix.remove = 6;
        mix.vanish = 1;
        mix.table = 8;
        mix.reopen = 0;
        mix.rebuild = 0;
        let mut flags = base_flags();
        flags.snapshot_lifecycle = true;
        let ntables = (i % 4) as usize;
        let mut eng = Eng::new(&mut rep, "C16", "c16", args.seed(), i, flags, ntables);
        let steps = if i % 2 == 0 { 12 + rng.usize_below(14) } else { 40 + rng.usize_below(60) };
        // lifecycle operations: at every position of short histories, at random positions of long ones
        let pos1 = if i % 2 == 0 { (i as usize / 2) % steps } else { rng.usize_below(steps) };
        let pos2 = rng.usize_below(steps);
        let two_rebuilds = i % 3 == 0;
        for s in 0..steps {
            if eng.aborted {
                break;
            }
            if s == pos1 {
                if i % 4 < 2 {
                    eng.rebuild();
                } else {
                    eng.reopen(i % 8 == 2);
                }
            }
            if s == pos2 && !eng.aborted {
                // in every third history this reopen / rebuild meets a completely used map: an event sized to end
                // exactly at the end of the backing file is stored first (the end marker equals the file length)
                if is_debug_build() && i % 3 == 1 {
                    use std::os::unix::fs::FileExt;
                    let mut sized: Option<Rc<Ev>> = None;
                    if let Ok(f) = std::fs::File::open(eng.dir.join("event.map")) {
                        let mut hdr = [0u8; 8];
                        if f.read_exact_at(&mut hdr, 0).is_ok() {
                            let end = u64::from_le_bytes(hdr) as usize;
                            let flen = f.metadata().map(|m| m.len() as usize).unwrap_or(0);
                            let start = (end + 7) / 8 * 8;
                            let mk = |rng: &mut Rng, clen: usize| Ev::new(SemEvent { id: rng.arr32(), pubkey: author(2), sig: [0x51; 64], kind: 1, created_at: 777, tags: vec![], content: "f".repeat(clen) });
                            if let Some(base) = mk(&mut rng, 0) {
                                let target = if flen > start + base.bytes.len() { flen } else { flen + 2048 };
                                sized = mk(&mut rng, target - start - base.bytes.len());
                            }
                        }
                    }
                    if let Some(ev) = sized {
                        let _ = eng.store(&ev);
                        eng.rep.count("lifecycle_steps_on_a_completely_used_map");
                    }
                }
                if two_rebuilds {
                    eng.rebuild();
                } else {
                    eng.reopen(false);
                }
            }
            one_step(&mut eng, &mut rng, &p, &mix);
        }
        if !eng.aborted {
            if i % 2 == 0 {
                eng.rebuild();
            } else {
                eng.reopen(false);
            }
        }
        let nt = eng.model.r.len() + eng.model.d.len() + eng.model.a.len() > 2;
        if i < 2 {
            let s = json!({"history": i, "tables": ntables, "rebuilds": eng.rebuilds, "reopens": eng.reopens, "tail": eng.log.iter().rev().take(8).rev().cloned().collect::<Vec<_>>()});
            eng.rep.sample(s);
        }
        finish_history(&mut eng, nt);
    }
    if only_index(args).is_none() {
        rep.require("lifecycle_snapshots_compared", "no lifecycle snapshot compared");
        rep.require("rebuilds", "no rebuild");
        rep.require("reopens", "no reopen");
        rep.require("table_puts", "no extra-table row");
    }
    rep
}

// ------------------------------------------------------------------------------------------ C17

pub fn c17(args: &Args) -> Report {
    let mut rep = Report::new("C17", &args.leg(), &args.tier(), args.seed());
    let small = args.flag("small");
    let n = if small { 3 } else if args.thorough() { 3000 } else { 150 };
    for i in 0..n {
        if let Some(x) = only_index(args) {
            if x != i {
                continue;
            }
        }
        let mut rng = hist_rng(args.seed(), 0xC17, i);
        let mut p = Pools::basic();
        // (ephemeral kinds too: such an event is stored but must be reachable through NO index, the id index included -
        // an event that one access path finds and the others do not is what this property excludes)
        p.kinds = vec![1, 1, 7, 0, 10002, 30023, 1059, 20001, 29999];
        // ordinary times plus ones later than the wall clock (year 2100, the largest value): every access path must
        // still find such events, including the pure time-window filter served by the scan over the time index
        p.times = vec![100, 101, 102, 200, 100, 101, 0, 1, 4_102_444_800, u64::MAX];
        p.content_lens = vec![0, 5];
        p.max_extra_tags = 6;
        let mut mix = Mix::base();
        mix.store_new = 55;
        mix.resubmit = 6;
        mix.del_own = 10;
        mix.del_foreign = 2;
        mix.del_mixed = 2;
        mix.remove = 12;
        mix.vanish = 2;
        mix.reopen = 1;
        let mut flags = base_flags();
        flags.derived_filters = true;
        let mut eng = Eng::new(&mut rep, "C17", "c17", args.seed(), i, flags, 0);
        if small {
            eng.jump_at = None;
        }
        let steps = if small { 20 } else { 30 + rng.usize_below(50) };
        for _ in 0..steps {
            if eng.aborted {
                break;
            }
            one_step(&mut eng, &mut rng, &p, &mix);
        }
        // drain: remove every retrievable event by a random mix of the removal routes
        let mut guard = 0;
        while !eng.aborted && !eng.model.r.is_empty() && guard < 400 {
            guard += 1;
            let ids: Vec<Id32> = eng.model.r.keys().cloned().collect();
            let id = *rng.pick(&ids);
            let ev = eng.model.r.get(&id).unwrap().clone();
            match rng.below(4) {
                0 => eng.remove(&id),
                1 => eng.vanish(&ev.sem.pubkey),
                2 => {
                    // by a deletion request of its author naming the id
                    let del = SemEvent { id: rng.arr32(), pubkey: ev.sem.pubkey, sig: [0x55; 64], kind: 5, created_at: 500, tags: vec![vec!["e".into(), hex(&id)]], content: String::new() };
                    if let Some(d) = Ev::new(del) {
                        let _ = eng.store(&d);
                    }
                }
                _ => {
                    // by replacement / address deletion when it has an address, else plain removal
                    if let Some(a) = addr_of(&ev.sem) {
                        let del = SemEvent { id: rng.arr32(), pubkey: ev.sem.pubkey, sig: [0x55; 64], kind: 5, created_at: ev.sem.created_at, tags: vec![vec!["a".into(), a.to_tag_value()]], content: String::new() };
                        if let Some(d) = Ev::new(del) {
                            let _ = eng.store(&d);
                        }
                    } else {
                        eng.remove(&id);
                    }
                }
            }
        }
        if !eng.aborted && eng.model.r.is_empty() {
            eng.rep.count("histories_drained_to_empty");
            eng.verify_state(OpKind::Remove);
        }
        let nt = eng.steps > 10;
        if i < 2 {
            let s = json!({"history": i, "derived_filters_run": eng.rep.counter("derived_filters_run"), "tail": eng.log.iter().rev().take(8).rev().cloned().collect::<Vec<_>>()});
            eng.rep.sample(s);
        }
        finish_history(&mut eng, nt);
    }
    if only_index(args).is_none() {
        rep.require("derived_filters_run", "no derived filter run");
        rep.require("histories_drained_to_empty", "no history drained to empty");
    }
    rep
}

// ------------------------------------------------------------------------------------------ C18

/// Vanish on a large scale: one key with several hundred authored events and several hundred gift-wraps addressed
/// to it (more than any plausible internal batch or result limit), next to bystanders. After the vanish none of the
/// targets may be retrievable by id or by query, all bystanders must be, and the index counts must agree.
fn c18_bulk_vanish(rep: &mut Report, args: &Args) {
    use pocket_db::{ScreenResult, Store};
    use pocket_types::Id;
    let n_auth = if args.thorough() { 2600usize } else { 700 };
    let n_wrap = if args.thorough() { 1300usize } else { 650 };
    let dir = workdir().join(format!("c18_bulk_{}", args.seed()));
    let _ = std::fs::remove_dir_all(&dir);
    if std::fs::create_dir_all(&dir).is_err() {
        return;
    }
    let store = match Store::new(&dir, vec![]) {
        Ok(s) => s,
        Err(e) => {
            rep.inconclusive.push(format!("bulk vanish: open failed: {e}"));
            return;
        }
    };
    let mut rng = hist_rng(args.seed(), 0xC18B, 0);
    let victim = author(0);
    let other = author(1);
    let mk = |rng: &mut Rng, pk: Id32, kind: u16, t: u64, tags: Vec<Vec<String>>| Ev::new(SemEvent { id: rng.arr32(), pubkey: pk, sig: [0x51; 64], kind, created_at: t, tags, content: String::new() }).unwrap();
    let mut targets: Vec<Id32> = vec![];
    let mut bystanders: Vec<Id32> = vec![];
    let mut put = |e: &Rc<Ev>, list: &mut Vec<Id32>| {
        if store.store_event(&pocket_types::OwnedEvent(e.bytes.clone())).is_ok() {
            list.push(e.sem.id);
        }
    };
    for k in 0..n_auth {
        let e = mk(&mut rng, victim, if k % 50 == 7 { 7 } else { 1 }, 1000 + k as u64, vec![vec!["t".into(), "bulk".into()]]);
        put(&e, &mut targets);
        if k % 100 == 0 {
            let b = mk(&mut rng, other, 1, 1000 + k as u64, vec![vec!["t".into(), "bulk".into()], vec!["p".into(), hex(&victim)]]);
            put(&b, &mut bystanders); // mentions the key, but is no gift-wrap
        }
    }
    for k in 0..n_wrap {
        let w = mk(&mut rng, other, 1059, 5000 + k as u64, vec![vec!["p".into(), hex(&victim)]]);
        put(&w, &mut targets);
        if k % 100 == 0 {
            let near = match (k / 100) % 4 {
                0 => hex(&author(2)),
                1 => format!("{}\u{0}", hex(&victim)),
                2 => format!("{}0", hex(&victim)),
                _ => hex(&victim)[..63].to_string(),
            };
            let b = mk(&mut rng, other, 1059, 5000 + k as u64, vec![vec!["p".into(), near]]);
            put(&b, &mut bystanders); // a gift-wrap for someone else
        }
    }
    let req = SemEvent { id: rng.arr32(), pubkey: victim, sig: [0; 64], kind: 62, created_at: 9000, tags: vec![], content: String::new() }.to_owned().unwrap();
    let rp = json!({"kind":"bulk-vanish","seed":args.seed(),"authored":n_auth,"giftwraps":n_wrap});
    rep.eval(fnv(format!("bulk{}{}", n_auth, n_wrap).as_bytes()), true);
    match catch(|| store.vanish(&req)) {
        Ok(Ok(())) => {}
        Ok(Err(e)) => {
            rep.finding("bulk-vanish-failed", &format!("{e}"), rp.clone());
        }
        Err(p) => {
            rep.finding(&format!("bulk-vanish-panic@{}", p.location), &p.message, rp.clone());
        }
    }
    let still: Vec<&Id32> = targets.iter().filter(|id| store.has_event(Id::from_bytes(**id)).unwrap_or(true)).collect();
    if !still.is_empty() {
        rep.finding("bulk-vanish-left-targets", &format!("{} of {} targeted events ({} authored, {} gift-wraps) are still retrievable by id after vanish, e.g. {}", still.len(), targets.len(), n_auth, n_wrap, hex(&still[0][..4])), rp.clone());
    }
    let gone: Vec<&Id32> = bystanders.iter().filter(|id| !store.has_event(Id::from_bytes(**id)).unwrap_or(false)).collect();
    if !gone.is_empty() {
        rep.finding("bulk-vanish-removed-bystanders", &format!("{} of {} bystander events are gone", gone.len(), bystanders.len()), rp.clone());
    }
    for (nm, f) in [
        ("author", SemFilter { authors: vec![victim], ..SemFilter::empty() }),
        ("tag", SemFilter { tags: vec![("t".into(), vec!["bulk".into()])], authors: vec![victim], ..SemFilter::empty() }),
        ("giftwraps", SemFilter { kinds: vec![1059], tags: vec![("p".into(), vec![hex(&victim)])], ..SemFilter::empty() }),
    ] {
        if let Ok(o) = f.to_owned() {
            match store.find_events(&o, true, 0, 0, |_| ScreenResult::Match) {
                Ok((evs, _)) => {
                    if !evs.is_empty() {
                        rep.finding("bulk-vanish-left-targets", &format!("query by {nm} still returns {} events after vanish", evs.len()), rp.clone());
                    }
                }
                Err(e) => rep.finding("bulk-vanish-query-failed", &format!("{nm}: {e}"), rp.clone()),
            }
        }
    }
    if let Ok(st) = store.stats() {
        let want = bystanders.len() as u64;
        let ix = st.index_stats;
        if ix.i_index_entries != want || ix.ac_index_entries != want {
            rep.finding("bulk-vanish-index-counts", &format!("id index {} / author index {} entries, {} events should remain", ix.i_index_entries, ix.ac_index_entries, want), rp.clone());
        }
    }
    rep.count_n("bulk_vanish_targets", targets.len() as u64);
    rep.count_n("bulk_vanish_bystanders", bystanders.len() as u64);
    let _ = store.verif_close();
    let _ = std::fs::remove_dir_all(&dir);
}

pub fn c18(args: &Args) -> Report {
    let mut rep = Report::new("C18", &args.leg(), &args.tier(), args.seed());
    if only_index(args).is_none() {
        c18_bulk_vanish(&mut rep, args);
    }
    let n = if args.thorough() { 5000 } else { 250 };
    for i in 0..n {
        if let Some(x) = only_index(args) {
            if x != i {
                continue;
            }
        }
        let mut rng = hist_rng(args.seed(), 0xC18, i);
        let mut p = Pools::basic();
        p.kinds = vec![1, 7, 0, 10002, 30023, 1059, 1059, 1058, 1060, 20000, 25000, 29999, 5];
        p.times = if i % 4 == 3 { vec![100, 101, 4_102_444_800, u64::MAX] } else if i % 4 == 1 { vec![0, 0, 1, 1, 2, 100] } else { vec![100, 101, 102, 200] };
        p.content_lens = vec![0, 5];
        p.max_extra_tags = 3;
        let mut mix = Mix::base();
        mix.store_new = 50;
        mix.resubmit = 14;
        mix.del_own = 5;
        mix.del_foreign = 1;
        mix.del_mixed = 1;
        mix.remove = 18;
        mix.vanish = 6;
        mix.table = 4;
        mix.reopen = 1;
        let mut flags = base_flags();
        flags.derived_filters = i % 2 == 0;
        flags.reread_offsets = true; // ephemeral events: the offset reads back although nothing else finds them
        flags.vanish_stores_request = true;
        let mut eng = Eng::new(&mut rep, "C18", "c18", args.seed(), i, flags, 2);
        let steps = 30 + rng.usize_below(50);
        for s in 0..steps {
            if eng.aborted {
                break;
            }
            one_step(&mut eng, &mut rng, &p, &mix);
            if s % 9 == 8 && !eng.aborted {
                // ephemeral kinds are never returned by queries; markers and tables stay (verify_state)
                let f = SemFilter { kinds: vec![20000, 25000, 29999], ..SemFilter::empty() };
                let _ = eng.check_query(&f, 0, (true, 0, 0), &["C18"], "ephemeral kinds");
                let f = SemFilter { kinds: vec![1059], ..SemFilter::empty() };
                let _ = eng.check_query(&f, 0, (true, 0, 0), &["C18"], "gift wraps");
            }
        }
        let nt = eng.rep.counter("removed_present") + eng.rep.counter("vanish_targets") > 0;
        if i < 2 {
            let s = json!({"history": i, "tail": eng.log.iter().rev().take(8).rev().cloned().collect::<Vec<_>>()});
            eng.rep.sample(s);
        }
        finish_history(&mut eng, nt);
    }
    {
        let mut flags = base_flags();
        flags.reread_offsets = true;
        enumerated_id_histories(&mut rep, args, "C18", "c18", flags);
    }
    if only_index(args).is_none() {
        rep.require("enumerated_id_histories", "the enumerated id histories did not run");
        rep.require("removed_present", "no present event removed");
        rep.require("removed_absent", "no absent id removed");
        rep.require("vanish_targets", "vanish had no target");
        rep.require("vanish_requests_stored_before_vanish", "no vanish was preceded by storing its own request");
    }
    rep
}

/// Replay of one history of any of the db checks: {"cmd":..,"seed":..,"index":..}
pub fn replay(v: &serde_json::Value, rep_out: &mut Report, args: &Args) {
    let cmd = v["cmd"].as_str().unwrap_or("").to_string();
    let seed = v["seed"].as_u64().unwrap_or(1);
    let index = v["index"].as_u64().unwrap_or(0);
    let mut a = Args { cmd: cmd.clone(), kv: args.kv.clone(), pos: vec![] };
    let _ = a.kv.insert("seed".into(), seed.to_string());
    let _ = a.kv.remove("seed-add");
    let _ = a.kv.insert("index".into(), index.to_string());
    let _ = a.kv.insert("tier".into(), v["tier"].as_str().unwrap_or("quick").to_string());
    let r = match cmd.as_str() {
        "c04" => c04(&a),
        "c05" => c05(&a),
        "c09" => c09(&a),
        "c10" => c10(&a),
        "c11" => c11(&a),
        "c12" => c12(&a),
        "c16" => c16(&a),
        "c17" => c17(&a),
        "c18" => c18(&a),
        _ => return,
    };
    rep_out.evaluations += r.evaluations;
    for f in r.findings {
        rep_out.finding_for(&f.prop, &f.signature, &f.detail, f.replay);
    }
    let _ = Rc::new(0);
}
