//! Generators of events, deletion requests, filters and operation mixes for the db monitors.
#![allow(dead_code)]

use crate::dbh::*;
use crate::model::*;
use crate::sem::*;
use crate::util::*;
use std::rc::Rc;

#[derive(Clone)]
pub struct Pools {
    pub authors: Vec<Id32>,
    pub kinds: Vec<u16>,
    pub times: Vec<u64>,
    pub dvals: Vec<String>,
    pub tvals: Vec<String>,
    pub letters: Vec<&'static str>,
    pub content_lens: Vec<usize>,
    pub max_extra_tags: usize,
}

pub fn author(n: u8) -> Id32 {
    let mut r = Rng::new(0xA0_0000 + n as u64);
    let mut a = r.arr32();
    a[0] = 0xA0 + n; // recognisable in logs
    a
}

/// A key that shares its first 31 bytes with `author(n)` (keys and ids that differ only at one end must never be
/// confused by an index key built from a prefix or suffix)
pub fn author_twin(n: u8) -> Id32 {
    let mut a = author(n);
    a[31] ^= 1;
    a
}

/// Mostly a fresh random id; sometimes one that differs from an id already used only in its last or first byte
pub fn fresh_id(rng: &mut Rng, eng: &Eng) -> Id32 {
    if !eng.all.is_empty() && rng.chance(1, 6) {
        let mut id = rng.pick(&eng.all).sem.id;
        if rng.chance(1, 2) {
            id[31] = id[31].wrapping_add(1 + rng.below(3) as u8);
        } else {
            id[0] ^= 1 << rng.below(8);
        }
        if !eng.all.iter().any(|e| e.sem.id == id) {
            return id;
        }
    }
    rng.arr32()
}

pub fn long_d(n: usize, tail: &str) -> String {
    let mut s = "D".repeat(n.saturating_sub(tail.len()));
    s.push_str(tail);
    s
}

impl Pools {
    pub fn basic() -> Pools {
        Pools {
            authors: vec![author(0), author_twin(0), author(1), author(2)],
            kinds: vec![1, 1, 7, 0, 3, 10002, 30023, 30024, 1059, 20001, 5, 62],
            times: vec![0, 1, 100, 101, 102, 103, 200, 255, 256, 65535, 65536, (1 << 32) - 1, 1 << 32, (1 << 32) + 1],
            dvals: vec!["".into(), "x".into(), "y".into(), "x:y".into(), "x\u{0}".into(), long_d(182, "a"), long_d(183, "ab"), long_d(183, "ac")],
            tvals: vec!["".into(), "a".into(), "b".into(), "ab".into(), "A".into(), "a966a0c7a966a0c7a966a0c7a966a0c7a966a0c7a966a0c7a966a0c7a966a0c7".into(), "A966A0C7A966A0C7A966A0C7A966A0C7A966A0C7A966A0C7A966A0C7A966A0C7".into(), "a\u{0}".into(), long_d(182, "p"), long_d(190, "q1"), long_d(190, "q2"), "nostr".into()],
            letters: vec!["t", "e", "p", "q", "T", "r"],
            content_lens: vec![0, 1, 7, 8, 9, 30, 100],
            max_extra_tags: 4,
        }
    }
}

fn rand_content(rng: &mut Rng, n: usize) -> String {
    (0..n).map(|_| (b'a' + rng.below(26) as u8) as char).collect()
}

/// An ordinary event (any kind of the pool except 5) with a random id.
pub fn gen_event(rng: &mut Rng, p: &Pools, eng: &Eng, kind: Option<u16>) -> SemEvent {
    let kind = kind.unwrap_or_else(|| {
        let mut k = *rng.pick(&p.kinds);
        while k == 5 {
            k = *rng.pick(&p.kinds);
        }
        k
    });
    let pubkey = *rng.pick(&p.authors);
    let mut tags: Vec<Vec<String>> = vec![];
    if is_param(kind) {
        let d = rng.pick(&p.dvals).clone();
        match rng.below(14) {
            // a value-less tag of another name (one letter, or the NIP-70 "-") in front of the d tag
            12 | 13 => {
                tags.push(vec![if rng.chance(1, 2) { "-".to_string() } else { rng.pick(&p.letters).to_string() }]);
                tags.push(vec!["d".into(), d]);
            }
            // a value-less d tag in FRONT of a valued one: the first tag named d decides, so this event has no address
            // although the tag index files it under the later value
            10 | 11 => {
                tags.push(vec!["d".into()]);
                tags.push(vec!["d".into(), d]);
            }
            0 => {
                // a non-"d" tag first, then the d tag
                tags.push(vec!["t".into(), rng.pick(&p.tvals).clone()]);
                tags.push(vec!["d".into(), d]);
            }
            1 => {
                // two d tags: only the first one is the address
                tags.push(vec!["d".into(), d]);
                tags.push(vec!["d".into(), rng.pick(&p.dvals).clone()]);
            }
            2 => tags.push(vec!["d".into(), d, "extra".into()]),
            // no d tag at all / a d tag without a value: such an event has no address (it is not at the d="" address)
            3 => {}
            4 => tags.push(vec!["d".into()]),
            _ => tags.push(vec!["d".into(), d]),
        }
    }
    let extra = rng.usize_below(p.max_extra_tags + 1);
    for _ in 0..extra {
        match rng.below(12) {
            0 => tags.push(vec![]),
            1 => tags.push(vec![rng.pick(&p.letters).to_string()]),
            2 => {
                // names outside NIP-01's single letters: several letters, one byte that is not a letter, empty
                // and NIP-40 expiration times in the past / in the future / unparsable (the store does not act on
                // them: such events are stored, found, reopened and rebuilt like any other)
                let name = *rng.pick(&["client", "1", "-", "#", "_", "tt", "", "1", "-", "expiration", "expiration"]);
                let v = match name {
                    "client" => "pvmon".to_string(),
                    "expiration" => rng.pick(&["1", "1712693529", "99712693529", "18446744073709551615", "soon", ""]).to_string(),
                    _ => rng.pick(&p.tvals).clone(),
                };
                tags.push(vec![name.to_string(), v]);
            }
            3 => {
                // the same value under two different letters, adjacent
                let v = rng.pick(&p.tvals).clone();
                tags.push(vec!["e".into(), v.clone()]);
                tags.push(vec!["q".into(), v]);
            }
            4 => {
                // the same tag twice (identical name and first value, different tail)
                let l = rng.pick(&p.letters).to_string();
                let v = rng.pick(&p.tvals).clone();
                tags.push(vec![l.clone(), v.clone(), "wss://a".into()]);
                tags.push(vec![l, v, "wss://b".into()]);
            }
            5 => tags.push(vec!["p".into(), hex(&rng.pick(&p.authors)[..])]),
            6 => {
                if let Some(ev) = if eng.all.is_empty() { None } else { Some(rng.pick(&eng.all).clone()) } {
                    tags.push(vec!["e".into(), hex(&ev.sem.id)]);
                }
            }
            _ => tags.push(vec![rng.pick(&p.letters).to_string(), rng.pick(&p.tvals).clone()]),
        }
    }
    if kind == 1059 {
        // gift wraps name their recipient in a p tag (first, later, as a non-first value, or someone else)
        let target = hex(&rng.pick(&p.authors)[..]);
        match rng.below(7) {
            // values that are NOT the recipient's key although every index key built from them starts like it: the
            // key followed by NUL bytes, by another digit, or cut short
            5 => tags.push(vec!["p".into(), format!("{target}{}", "\u{0}".repeat(1 + rng.usize_below(3)))]),
            6 => tags.push(vec!["p".into(), if rng.chance(1, 2) { format!("{target}0") } else { target[..63].to_string() }]),
            0 => tags.insert(0, vec!["p".into(), target]),
            1 => tags.push(vec!["p".into(), target]),
            2 => tags.push(vec!["p".into(), "relay-hint".into(), target]),
            3 => {
                tags.push(vec!["p".into(), hex(&author(9))]);
                tags.push(vec!["p".into(), target]);
            }
            _ => tags.push(vec!["P".into(), target]),
        }
    }
    let clen = *rng.pick(&p.content_lens);
    SemEvent {
        id: fresh_id(rng, eng),
        pubkey,
        sig: [0x51; 64],
        kind,
        created_at: *rng.pick(&p.times),
        tags,
        content: rand_content(rng, clen),
    }
}

#[derive(Clone, Copy, Debug, PartialEq, Eq)]
pub enum DelStyle {
    /// own targets only
    Own,
    /// at least one target of another author, at a random position
    WithForeign,
    /// anything
    Mixed,
    /// only own/absent/malformed targets, then exactly one foreign target as the last tag
    OwnThenForeign,
}

/// A kind-5 deletion request by `who` with 1..max_tags tags.
pub fn gen_deletion(rng: &mut Rng, p: &Pools, eng: &Eng, who: Id32, style: DelStyle, max_tags: usize) -> SemEvent {
    // max_tags >= 1000 means "exactly max_tags - 1000 tags" (before the trailing foreign one, if any)
    let ntags = if max_tags >= 1000 { max_tags - 1000 } else { 1 + rng.usize_below(max_tags) };
    let mut tags: Vec<Vec<String>> = vec![];
    let own_events: Vec<Rc<Ev>> = eng.all.iter().filter(|e| e.sem.pubkey == who).cloned().collect();
    let foreign_events: Vec<Rc<Ev>> = eng.all.iter().filter(|e| e.sem.pubkey != who && eng.model.r.contains_key(&e.sem.id)).cloned().collect();
    let foreign_authors: Vec<Id32> = p.authors.iter().filter(|a| **a != who).cloned().collect();
    let mk_own_addr = |rng: &mut Rng| -> String {
        let k = *rng.pick(&[0u16, 3, 10002, 30023, 30024, 1]);
        let d = if is_param(k) { rng.pick(&p.dvals).clone() } else { String::new() };
        format!("{}:{}:{}", k, hex(&who), d)
    };
    for _ in 0..ntags {
        let choice = match style {
            DelStyle::Own | DelStyle::OwnThenForeign => rng.below(6),
            _ => rng.below(10),
        };
        match choice {
            0 | 1 => {
                if !own_events.is_empty() {
                    tags.push(vec!["e".into(), hex(&rng.pick(&own_events).sem.id)]);
                } else {
                    tags.push(vec!["e".into(), hex(&rng.arr32())]);
                }
            }
            2 => tags.push(vec!["e".into(), hex(&rng.arr32())]), // an id that is not stored
            3 | 4 => {
                // own address: of one of the requester's own addressed events when possible
                let own_addrs: Vec<AddrKey> = own_events.iter().filter_map(|e| addr_of(&e.sem)).collect();
                if !own_addrs.is_empty() && rng.chance(3, 4) {
                    tags.push(vec!["a".into(), rng.pick(&own_addrs).to_tag_value()]);
                } else {
                    tags.push(vec!["a".into(), mk_own_addr(rng)]);
                }
            }
            5 => {
                // malformed targets and unrelated tags: no effect
                let t: Vec<String> = match rng.below(6) {
                    0 => vec!["e".into(), "nothex".into()],
                    1 => vec!["e".into(), hex(&rng.bytes(31))],
                    2 => vec!["a".into(), "no-colons".into()],
                    3 => vec!["a".into(), format!("notakind:{}:x", hex(&who))],
                    4 => vec!["a".into(), format!("30023:{}:x", hex(&rng.bytes(20)))],
                    _ => vec!["e".into()],
                };
                tags.push(t);
            }
            6 | 7 => {
                if !foreign_events.is_empty() {
                    tags.push(vec!["e".into(), hex(&rng.pick(&foreign_events).sem.id)]);
                } else {
                    tags.push(vec!["e".into(), hex(&rng.arr32())]);
                }
            }
            _ => {
                // another author's address (of a stored event when there is one)
                let faddrs: Vec<AddrKey> = foreign_events.iter().filter_map(|e| addr_of(&e.sem)).collect();
                if !faddrs.is_empty() && rng.chance(3, 4) {
                    tags.push(vec!["a".into(), rng.pick(&faddrs).to_tag_value()]);
                } else if !foreign_authors.is_empty() {
                    let k = *rng.pick(&[0u16, 10002, 30023]);
                    let d = if is_param(k) { rng.pick(&p.dvals).clone() } else { String::new() };
                    tags.push(vec!["a".into(), format!("{}:{}:{}", k, hex(&rng.pick(&foreign_authors)[..]), d)]);
                }
            }
        }
    }
    // real requests often carry a relay hint (or more) after the target
    // ... and some the NIP-10 style tail: relay, marker, and a pubkey - the requester's own, the target's author's,
    // somebody else's, or no pubkey at all. None of it says who wrote the target.
    for t in tags.iter_mut() {
        if t.len() == 2 && rng.chance(1, 4) {
            t.push("wss://relay.example".into());
            if rng.chance(1, 2) {
                t.push(rng.pick(&["root", "reply", "mention", ""]).to_string());
                match rng.below(5) {
                    0 | 1 => t.push(hex(&who)),
                    2 => t.push(hex(&rng.pick(&p.authors)[..])),
                    3 => t.push("not-a-key".into()),
                    _ => {}
                }
            }
        }
    }
    if style == DelStyle::OwnThenForeign {
        let t = if !foreign_events.is_empty() {
            let fe = rng.pick(&foreign_events);
            match addr_of(&fe.sem) {
                Some(a) if rng.chance(1, 2) => vec!["a".to_string(), a.to_tag_value()],
                _ => vec!["e".to_string(), hex(&fe.sem.id)],
            }
        } else if !foreign_authors.is_empty() {
            vec!["a".to_string(), format!("30023:{}:x", hex(&rng.pick(&foreign_authors)[..]))]
        } else {
            vec!["e".to_string(), hex(&rng.arr32())]
        };
        tags.push(t);
    }
    if style == DelStyle::WithForeign {
        // make sure one foreign target is present, at a random position
        let has_foreign = {
            let probe = SemEvent { id: [0; 32], pubkey: who, sig: [0; 64], kind: 5, created_at: 0, tags: tags.clone(), content: String::new() };
            eng.model.reasons(&probe).foreign
        };
        if !has_foreign {
            let t = if !foreign_events.is_empty() && rng.chance(2, 3) {
                let fe = rng.pick(&foreign_events);
                match addr_of(&fe.sem) {
                    Some(a) if rng.chance(1, 2) => vec!["a".to_string(), a.to_tag_value()],
                    _ => vec!["e".to_string(), hex(&fe.sem.id)],
                }
            } else if !foreign_authors.is_empty() {
                vec!["a".to_string(), format!("30023:{}:x", hex(&rng.pick(&foreign_authors)[..]))]
            } else {
                vec!["e".to_string(), hex(&rng.arr32())]
            };
            let mut t = t;
            if rng.chance(1, 3) {
                t.push("wss://relay.example".into());
            }
            let at = rng.usize_below(tags.len() + 1);
            tags.insert(at, t);
        }
    }
    SemEvent {
        id: rng.arr32(),
        pubkey: who,
        sig: [0x55; 64],
        kind: 5,
        created_at: *rng.pick(&p.times),
        tags,
        content: String::new(),
    }
}

/// Filters aimed at each index plan of find_events, in many shapes.
pub fn gen_filter(rng: &mut Rng, p: &Pools, eng: &Eng, plan: usize) -> SemFilter {
    let mut f = SemFilter::empty();
    let some_authors = |rng: &mut Rng| -> Vec<Id32> {
        match rng.below(4) {
            0 => vec![*rng.pick(&p.authors)],
            1 => vec![*rng.pick(&p.authors), *rng.pick(&p.authors)],
            2 => p.authors.clone(),
            _ => vec![author(7), *rng.pick(&p.authors)],
        }
    };
    let some_kinds = |rng: &mut Rng| -> Vec<u16> {
        match rng.below(4) {
            0 => vec![*rng.pick(&p.kinds)],
            1 => vec![*rng.pick(&p.kinds), *rng.pick(&p.kinds), 9999],
            2 => p.kinds.clone(),
            _ => vec![1, 7],
        }
    };
    let some_tags = |rng: &mut Rng| -> Vec<(String, Vec<String>)> {
        let nl = match rng.below(4) {
            0 | 1 => 1,
            2 => 2,
            _ => 3,
        };
        let mut v: Vec<(String, Vec<String>)> = vec![];
        for _ in 0..nl {
            let l = rng.pick(&p.letters).to_string();
            if v.iter().any(|(n, _)| *n == l) {
                continue;
            }
            let nv = match rng.below(5) {
                0 => 1,
                1 | 2 => 2,
                3 => 3,
                _ => 0,
            };
            let mut vals = vec![];
            for _ in 0..nv {
                vals.push(rng.pick(&p.tvals).clone());
            }
            // draw values from stored events too, so that the filter is selective but not empty
            if !eng.all.is_empty() && rng.chance(1, 2) {
                let ev = rng.pick(&eng.all);
                for t in ev.sem.tags.iter() {
                    if t.len() >= 2 && t[0] == l {
                        vals.push(t[1].clone());
                        break;
                    }
                }
            }
            v.push((l, vals));
        }
        v
    };
    match plan % 7 {
        0 => {
            // ids
            let n = 1 + rng.usize_below(6);
            for _ in 0..n {
                if !eng.all.is_empty() && rng.chance(4, 5) {
                    f.ids.push(rng.pick(&eng.all).sem.id);
                } else {
                    f.ids.push(rng.arr32());
                }
            }
            if rng.chance(1, 3) {
                f.authors = some_authors(rng);
            }
            if rng.chance(1, 3) {
                f.kinds = some_kinds(rng);
            }
        }
        1 => {
            f.authors = some_authors(rng);
            f.kinds = some_kinds(rng);
            if rng.chance(1, 3) {
                f.tags = some_tags(rng);
            }
        }
        2 => {
            f.authors = some_authors(rng);
            f.tags = some_tags(rng);
        }
        3 => {
            f.kinds = some_kinds(rng);
            f.tags = some_tags(rng);
        }
        4 => f.tags = some_tags(rng),
        5 => f.authors = some_authors(rng),
        _ => {
            if rng.chance(1, 2) {
                f.kinds = some_kinds(rng);
            }
        }
    }
    // time window: absent, boundary-equal, inverted, future
    match rng.below(8) {
        0 | 1 | 2 => {}
        3 => f.since = Some(*rng.pick(&p.times)),
        4 => f.until = Some(*rng.pick(&p.times)),
        5 => {
            let a = *rng.pick(&p.times);
            let b = *rng.pick(&p.times);
            f.since = Some(a.min(b));
            f.until = Some(a.max(b));
        }
        6 => {
            // inverted or far-future window
            let a = *rng.pick(&p.times);
            if rng.chance(1, 2) {
                f.since = Some(a.saturating_add(1));
                f.until = Some(a);
            } else {
                f.since = Some(u64::MAX - rng.below(3));
            }
        }
        _ => {
            let a = *rng.pick(&p.times);
            f.since = Some(a);
            f.until = Some(a);
        }
    }
    // limit: none, 0, smaller than / equal to / larger than the number of matches
    match rng.below(6) {
        0 | 1 => {}
        2 => f.limit = Some(0),
        3 => f.limit = Some(1),
        4 => f.limit = Some(1 + rng.below(4) as u32),
        _ => f.limit = Some(1000),
    }
    f
}


/// Filters built from what is actually retrievable, so that several values / authors / kinds each
/// contribute matches, with a limit that cuts in the middle of the qualifying set.
pub fn gen_filter_from_state(rng: &mut Rng, eng: &Eng, plan: usize) -> SemFilter {
    use std::collections::{BTreeMap, BTreeSet};
    let mut authors: BTreeSet<Id32> = BTreeSet::new();
    let mut kinds: BTreeSet<u16> = BTreeSet::new();
    let mut tagvals: BTreeMap<String, BTreeSet<String>> = BTreeMap::new();
    for e in eng.model.r.values() {
        let _ = authors.insert(e.sem.pubkey);
        let _ = kinds.insert(e.sem.kind);
        for t in e.sem.tags.iter() {
            if t.len() >= 2 && t[0].len() == 1 && t[0].as_bytes()[0].is_ascii_alphabetic() {
                let _ = tagvals.entry(t[0].clone()).or_default().insert(t[1].clone());
            }
        }
    }
    let authors: Vec<Id32> = authors.into_iter().collect();
    let kinds: Vec<u16> = kinds.into_iter().collect();
    let mut f = SemFilter::empty();
    let pick_some = |rng: &mut Rng, n: usize| -> usize { 1 + rng.usize_below(n.min(3)) };
    let some_authors = |rng: &mut Rng| -> Vec<Id32> {
        if authors.is_empty() {
            return vec![];
        }
        let mut v = authors.clone();
        rng.shuffle(&mut v);
        let k = pick_some(rng, v.len());
        v.truncate(k);
        v
    };
    let some_kinds = |rng: &mut Rng| -> Vec<u16> {
        if kinds.is_empty() {
            return vec![];
        }
        let mut v = kinds.clone();
        rng.shuffle(&mut v);
        let k = pick_some(rng, v.len());
        v.truncate(k);
        v
    };
    let some_tags = |rng: &mut Rng| -> Vec<(String, Vec<String>)> {
        if tagvals.is_empty() {
            return vec![];
        }
        let letters: Vec<&String> = tagvals.keys().collect();
        let l = (*rng.pick(&letters)).clone();
        let mut vals: Vec<String> = tagvals[&l].iter().cloned().collect();
        rng.shuffle(&mut vals);
        let k = (2 + rng.usize_below(3)).min(vals.len());
        vals.truncate(k);
        vec![(l, vals)]
    };
    match plan % 7 {
        0 => {
            let mut ids: Vec<Id32> = eng.model.r.keys().cloned().collect();
            rng.shuffle(&mut ids);
            let k = (2 + rng.usize_below(8)).min(ids.len());
            ids.truncate(k);
            f.ids = ids;
        }
        1 => {
            f.authors = some_authors(rng);
            f.kinds = some_kinds(rng);
        }
        2 => {
            f.authors = some_authors(rng);
            f.tags = some_tags(rng);
        }
        3 => {
            f.kinds = some_kinds(rng);
            f.tags = some_tags(rng);
        }
        4 => f.tags = some_tags(rng),
        5 => f.authors = some_authors(rng),
        _ => {
            if rng.chance(1, 2) {
                f.kinds = some_kinds(rng);
            }
        }
    }
    // the plan is chosen by the clauses above; half of the time the filter carries FURTHER clauses that the chosen
    // index does not serve and that must still be honoured (a single-valued or multi-valued tag constraint on top of
    // authors+kinds, kinds or authors on top of ids or tags, a time window around a stored event)
    if rng.chance(1, 2) {
        let times: Vec<u64> = eng.model.r.values().map(|e| e.sem.created_at).collect();
        for _ in 0..(1 + rng.usize_below(2)) {
            match rng.below(5) {
                0 if f.tags.is_empty() => {
                    let mut t = some_tags(rng);
                    if rng.chance(1, 2) {
                        for c in t.iter_mut() {
                            c.1.truncate(1); // single-valued
                        }
                    }
                    f.tags = t;
                }
                1 if f.kinds.is_empty() => f.kinds = some_kinds(rng),
                2 if f.authors.is_empty() => f.authors = some_authors(rng),
                3 if !times.is_empty() => f.since = Some(*rng.pick(&times)),
                4 if !times.is_empty() => f.until = Some(*rng.pick(&times)),
                _ => {}
            }
        }
    }
    let q = eng.model.qualifying(&f, &|_| 0).len();
    if q >= 2 && rng.chance(4, 5) {
        f.limit = Some(1 + rng.below(q as u64 - 1) as u32);
    }
    f
}
