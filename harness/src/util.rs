//! Shared plumbing: PRNG, hashing, hex, panic capture, reports, CLI args.
#![allow(dead_code)]

use serde_json::{json, Map, Value};
use std::cell::RefCell;
use std::collections::{BTreeMap, HashMap, HashSet};
use std::panic::{self, AssertUnwindSafe};
use std::sync::Once;

// ---------------------------------------------------------------- PRNG (splitmix64)

#[derive(Clone, Debug)]
pub struct Rng(pub u64);

impl Rng {
    pub fn new(seed: u64) -> Rng {
        Rng(seed ^ 0x9E37_79B9_7F4A_7C15)
    }
    /// Independent sub-stream
    pub fn fork(&mut self, tag: u64) -> Rng {
        let a = self.next_u64();
        Rng(a ^ tag.wrapping_mul(0xD6E8_FEB8_6659_FD93))
    }
    pub fn next_u64(&mut self) -> u64 {
        self.0 = self.0.wrapping_add(0x9E37_79B9_7F4A_7C15);
        let mut z = self.0;
        z = (z ^ (z >> 30)).wrapping_mul(0xBF58_476D_1CE4_E5B9);
        z = (z ^ (z >> 27)).wrapping_mul(0x94D0_49BB_1331_11EB);
        z ^ (z >> 31)
    }
    pub fn below(&mut self, n: u64) -> u64 {
        if n == 0 {
            0
        } else {
            self.next_u64() % n
        }
    }
    pub fn usize_below(&mut self, n: usize) -> usize {
        self.below(n as u64) as usize
    }
    pub fn range(&mut self, lo: u64, hi_incl: u64) -> u64 {
        lo + self.below(hi_incl - lo + 1)
    }
    pub fn chance(&mut self, num: u64, den: u64) -> bool {
        self.below(den) < num
    }
    pub fn pick<'a, T>(&mut self, xs: &'a [T]) -> &'a T {
        &xs[self.usize_below(xs.len())]
    }
    pub fn bytes(&mut self, n: usize) -> Vec<u8> {
        let mut v = Vec::with_capacity(n);
        while v.len() < n {
            let x = self.next_u64().to_le_bytes();
            let take = (n - v.len()).min(8);
            v.extend_from_slice(&x[..take]);
        }
        v
    }
    pub fn arr32(&mut self) -> [u8; 32] {
        let mut a = [0u8; 32];
        a.copy_from_slice(&self.bytes(32));
        a
    }
    pub fn arr64(&mut self) -> [u8; 64] {
        let mut a = [0u8; 64];
        a.copy_from_slice(&self.bytes(64));
        a
    }
    pub fn shuffle<T>(&mut self, xs: &mut [T]) {
        for i in (1..xs.len()).rev() {
            let j = self.usize_below(i + 1);
            xs.swap(i, j);
        }
    }
    /// weighted choice: returns index
    pub fn weighted(&mut self, weights: &[u32]) -> usize {
        let total: u64 = weights.iter().map(|w| *w as u64).sum();
        let mut x = self.below(total.max(1));
        for (i, w) in weights.iter().enumerate() {
            if x < *w as u64 {
                return i;
            }
            x -= *w as u64;
        }
        weights.len() - 1
    }
}

// ---------------------------------------------------------------- hashing / hex

pub fn fnv(data: &[u8]) -> u64 {
    let mut h: u64 = 0xcbf29ce484222325;
    for b in data {
        h ^= *b as u64;
        h = h.wrapping_mul(0x100000001b3);
    }
    h
}

pub fn fnv_parts(parts: &[&[u8]]) -> u64 {
    let mut h: u64 = 0xcbf29ce484222325;
    for p in parts {
        for b in p.iter() {
            h ^= *b as u64;
            h = h.wrapping_mul(0x100000001b3);
        }
        h ^= 0xff;
        h = h.wrapping_mul(0x100000001b3);
    }
    h
}

pub fn hex(data: &[u8]) -> String {
    const H: &[u8; 16] = b"0123456789abcdef";
    let mut s = String::with_capacity(data.len() * 2);
    for b in data {
        s.push(H[(b >> 4) as usize] as char);
        s.push(H[(b & 15) as usize] as char);
    }
    s
}

pub fn unhex(s: &str) -> Option<Vec<u8>> {
    let b = s.as_bytes();
    if b.len() % 2 != 0 {
        return None;
    }
    let v = |c: u8| -> Option<u8> {
        match c {
            b'0'..=b'9' => Some(c - b'0'),
            b'a'..=b'f' => Some(c - b'a' + 10),
            b'A'..=b'F' => Some(c - b'A' + 10),
            _ => None,
        }
    };
    let mut out = Vec::with_capacity(b.len() / 2);
    for i in 0..b.len() / 2 {
        out.push(v(b[2 * i])? * 16 + v(b[2 * i + 1])?);
    }
    Some(out)
}

/// printable rendering of bytes for samples (lossy, truncated)
pub fn show(data: &[u8], max: usize) -> String {
    let cut = data.len().min(max);
    let mut s = String::new();
    for &b in &data[..cut] {
        if (0x20..0x7f).contains(&b) {
            s.push(b as char);
        } else {
            s.push_str(&format!("\\x{:02x}", b));
        }
    }
    if data.len() > cut {
        s.push_str(&format!("...(+{} bytes)", data.len() - cut));
    }
    s
}

// ---------------------------------------------------------------- panic capture

#[derive(Clone, Debug)]
pub struct PanicInfo {
    pub location: String, // file:line (repo-relative when possible)
    pub message: String,
}

thread_local! {
    static LAST_PANIC: RefCell<Option<PanicInfo>> = const { RefCell::new(None) };
    static QUIET: RefCell<bool> = const { RefCell::new(false) };
}

static HOOK: Once = Once::new();

pub fn install_panic_hook() {
    HOOK.call_once(|| {
        let default = panic::take_hook();
        panic::set_hook(Box::new(move |info| {
            let loc = info
                .location()
                .map(|l| format!("{}:{}", short_path(l.file()), l.line()))
                .unwrap_or_else(|| "?".to_string());
            let msg = if let Some(s) = info.payload().downcast_ref::<&str>() {
                s.to_string()
            } else if let Some(s) = info.payload().downcast_ref::<String>() {
                s.clone()
            } else {
                "<non-string panic>".to_string()
            };
            let quiet = QUIET.with(|q| *q.borrow());
            LAST_PANIC.with(|p| {
                *p.borrow_mut() = Some(PanicInfo {
                    location: loc,
                    message: msg,
                })
            });
            if !quiet {
                default(info);
            }
        }));
    });
}

pub fn short_path(p: &str) -> String {
    if let Some(i) = p.find("pocket-types/") {
        return p[i..].to_string();
    }
    if let Some(i) = p.find("pocket-db/") {
        return p[i..].to_string();
    }
    if let Some(i) = p.find("/registry/src/") {
        let rest = &p[i + 14..];
        if let Some(j) = rest.find('/') {
            return rest[j + 1..].to_string();
        }
    }
    if let Some(i) = p.find("/rustc/") {
        let rest = &p[i + 7..];
        if let Some(j) = rest.find('/') {
            return format!("rust:{}", &rest[j + 1..]);
        }
    }
    p.to_string()
}

/// The most recent panic recorded by the hook on this thread (location, message), if any.
pub fn last_panic() -> Option<PanicInfo> {
    LAST_PANIC.with(|p| p.borrow_mut().take())
}

/// Run `f`, catching a panic (quietly). The closure must not leave shared state broken.
pub fn catch<T>(f: impl FnOnce() -> T) -> Result<T, PanicInfo> {
    install_panic_hook();
    QUIET.with(|q| *q.borrow_mut() = true);
    LAST_PANIC.with(|p| *p.borrow_mut() = None);
    let r = panic::catch_unwind(AssertUnwindSafe(f));
    QUIET.with(|q| *q.borrow_mut() = false);
    match r {
        Ok(v) => Ok(v),
        Err(_) => Err(LAST_PANIC.with(|p| p.borrow_mut().take()).unwrap_or(PanicInfo {
            location: "?".into(),
            message: "?".into(),
        })),
    }
}

/// Normalise a panic message into a short class usable in a signature
pub fn panic_class(msg: &str) -> String {
    let m = msg;
    let known = [
        ("index out of bounds", "index-oob"),
        ("out of range for slice", "slice-range"),
        ("slice index starts at", "slice-order"),
        ("attempt to multiply with overflow", "mul-overflow"),
        ("attempt to add with overflow", "add-overflow"),
        ("attempt to subtract with overflow", "sub-overflow"),
        ("attempt to shift left with overflow", "shl-overflow"),
        ("called `Result::unwrap()`", "unwrap-err"),
        ("called `Option::unwrap()`", "unwrap-none"),
        ("assertion", "assertion"),
        ("copy_from_slice", "copy-len-mismatch"),
        ("source slice length", "copy-len-mismatch"),
    ];
    for (pat, cls) in known {
        if m.contains(pat) {
            return cls.to_string();
        }
    }
    let mut s: String = m
        .chars()
        .map(|c| if c.is_ascii_alphanumeric() { c } else { '-' })
        .collect();
    s.truncate(40);
    s
}

// ---------------------------------------------------------------- report

#[derive(Clone, Debug)]
pub struct Finding {
    pub prop: String,
    pub signature: String,
    pub detail: String,
    pub replay: Value,
    pub count: u64,
}

pub struct Report {
    pub prop: String,
    pub leg: String,
    pub tier: String,
    pub seed: u64,
    pub evaluations: u64,
    pub distinct: HashSet<u64>,
    pub samples: Vec<Value>,
    pub max_samples: usize,
    pub counters: BTreeMap<String, u64>,
    pub findings: Vec<Finding>,
    finding_index: HashMap<String, usize>,
    pub inconclusive: Vec<String>,
    pub notes: Vec<String>,
    pub extra: Map<String, Value>,
    pub exhaustive: bool,
    start: std::time::Instant,
}

impl Report {
    pub fn new(prop: &str, leg: &str, tier: &str, seed: u64) -> Report {
        Report {
            prop: prop.to_string(),
            leg: leg.to_string(),
            tier: tier.to_string(),
            seed,
            evaluations: 0,
            distinct: HashSet::new(),
            samples: vec![],
            max_samples: 4,
            counters: BTreeMap::new(),
            findings: vec![],
            finding_index: HashMap::new(),
            inconclusive: vec![],
            notes: vec![],
            extra: Map::new(),
            exhaustive: false,
            start: std::time::Instant::now(),
        }
    }

    /// One evaluated case. `hash` identifies it; it only counts as distinct-nontrivial when `nontrivial`.
    pub fn eval(&mut self, hash: u64, nontrivial: bool) {
        self.evaluations += 1;
        if nontrivial {
            let _ = self.distinct.insert(hash);
        }
    }

    pub fn count(&mut self, name: &str) {
        *self.counters.entry(name.to_string()).or_insert(0) += 1;
    }
    pub fn count_n(&mut self, name: &str, n: u64) {
        *self.counters.entry(name.to_string()).or_insert(0) += n;
    }
    pub fn counter(&self, name: &str) -> u64 {
        *self.counters.get(name).unwrap_or(&0)
    }
    /// sum of all counters whose name starts with `prefix`
    pub fn counter_prefix(&self, prefix: &str) -> u64 {
        self.counters.iter().filter(|(k, _)| k.starts_with(prefix)).map(|(_, v)| *v).sum()
    }
    /// Record that the workload never reached something this check promises to exercise. The driver
    /// reports the check as broken (exit 2) instead of "held".
    pub fn require(&mut self, counter_prefix: &str, what: &str) {
        if self.counter_prefix(counter_prefix) == 0 {
            let mut gaps: Vec<serde_json::Value> = self.extra.get("coverage_gaps").and_then(|v| v.as_array().cloned()).unwrap_or_default();
            gaps.push(json!(format!("{what} (counter {counter_prefix}* is 0)")));
            let _ = self.extra.insert("coverage_gaps".into(), json!(gaps));
        }
    }
    pub fn set_max(&mut self, name: &str, v: u64) {
        let e = self.counters.entry(name.to_string()).or_insert(0);
        if v > *e {
            *e = v;
        }
    }

    pub fn sample(&mut self, v: Value) {
        if self.samples.len() < self.max_samples {
            self.samples.push(v);
        }
    }

    /// Record a violation. Deduplicated by signature: the first witness is kept, later ones counted.
    pub fn finding(&mut self, signature: &str, detail: &str, replay: Value) {
        let prop = self.prop.clone();
        self.finding_for(&prop, signature, detail, replay)
    }

    pub fn finding_for(&mut self, prop: &str, signature: &str, detail: &str, replay: Value) {
        let key = format!("{}|{}", prop, signature);
        if let Some(i) = self.finding_index.get(&key) {
            self.findings[*i].count += 1;
            return;
        }
        let _ = self.finding_index.insert(key, self.findings.len());
        let mut d = detail.to_string();
        if d.len() > 2000 {
            d.truncate(2000);
            d.push_str("...");
        }
        self.findings.push(Finding {
            prop: prop.to_string(),
            signature: signature.to_string(),
            detail: d,
            replay,
            count: 1,
        });
    }

    pub fn has_finding(&self, signature: &str) -> bool {
        self.finding_index
            .contains_key(&format!("{}|{}", self.prop, signature))
    }

    pub fn to_json(&self) -> Value {
        let findings: Vec<Value> = self
            .findings
            .iter()
            .map(|f| {
                json!({"prop": f.prop, "signature": f.signature, "detail": f.detail,
                       "replay": f.replay, "count": f.count})
            })
            .collect();
        json!({
            "prop": self.prop,
            "leg": self.leg,
            "tier": self.tier,
            "seed": self.seed,
            "evaluations": self.evaluations,
            "distinct_nontrivial": self.distinct.len(),
            "distinct_hashes": if self.distinct.len() <= 200000 { json!(self.distinct.iter().map(|h| format!("{:x}", h)).collect::<Vec<_>>()) } else { json!(null) },
            "samples": self.samples,
            "counters": self.counters,
            "findings": findings,
            "inconclusive": self.inconclusive,
            "notes": self.notes,
            "extra": self.extra,
            "exhaustive": self.exhaustive,
            "wall_s": self.start.elapsed().as_secs_f64(),
        })
    }

    pub fn write(&self, path: &str) {
        let v = self.to_json();
        std::fs::write(path, serde_json::to_vec(&v).unwrap()).expect("write report");
    }
}

// ---------------------------------------------------------------- CLI args

pub struct Args {
    pub cmd: String,
    pub kv: HashMap<String, String>,
    pub pos: Vec<String>,
}

impl Args {
    pub fn parse() -> Args {
        let mut it = std::env::args().skip(1);
        let cmd = it.next().unwrap_or_default();
        let mut kv = HashMap::new();
        let mut pos = vec![];
        let rest: Vec<String> = it.collect();
        let mut i = 0;
        while i < rest.len() {
            if let Some(k) = rest[i].strip_prefix("--") {
                if i + 1 < rest.len() && !rest[i + 1].starts_with("--") {
                    let _ = kv.insert(k.to_string(), rest[i + 1].clone());
                    i += 2;
                } else {
                    let _ = kv.insert(k.to_string(), "1".to_string());
                    i += 1;
                }
            } else {
                pos.push(rest[i].clone());
                i += 1;
            }
        }
        Args { cmd, kv, pos }
    }
    pub fn get(&self, k: &str) -> Option<&str> {
        self.kv.get(k).map(|s| s.as_str())
    }
    pub fn get_u64(&self, k: &str, default: u64) -> u64 {
        self.get(k).and_then(|s| s.parse().ok()).unwrap_or(default)
    }
    pub fn get_str(&self, k: &str, default: &str) -> String {
        self.get(k).unwrap_or(default).to_string()
    }
    pub fn flag(&self, k: &str) -> bool {
        self.kv.contains_key(k)
    }
    pub fn tier(&self) -> String {
        // slow instrumented legs may run the quick budget inside a thorough check
        if let Some(t) = self.get("tier-override") {
            return t.to_string();
        }
        self.get_str("tier", "quick")
    }
    pub fn thorough(&self) -> bool {
        self.tier() == "thorough"
    }
    pub fn seed(&self) -> u64 {
        // --seed-add lets the driver give sharded legs different streams
        self.get_u64("seed", 1).wrapping_add(self.get_u64("seed-add", 0).wrapping_mul(0x9E37_79B9))
    }
    pub fn leg(&self) -> String {
        self.get_str(
            "leg",
            if cfg!(debug_assertions) {
                "debug"
            } else {
                "release"
            },
        )
    }
    /// (shard index, shard count)
    pub fn shard(&self) -> (u64, u64) {
        let s = self.get_str("shard", "0/1");
        let mut it = s.split('/');
        let i = it.next().and_then(|x| x.parse().ok()).unwrap_or(0);
        let n = it.next().and_then(|x| x.parse().ok()).unwrap_or(1);
        (i, n)
    }
    pub fn out(&self) -> String {
        self.get_str("out", "/dev/null")
    }
}

pub fn is_debug_build() -> bool {
    cfg!(debug_assertions)
}

// ---------------------------------------------------------------- guarded output buffers

/// An output buffer of exactly `n` usable bytes surrounded by canary zones, so that
/// writes outside the slice handed to the code under test are detected afterwards.
pub struct Guarded {
    buf: Vec<u8>,
    guard: usize,
    n: usize,
    exact: bool,
}

impl Guarded {
    /// `exact`: no guard zones, the allocation is exactly n bytes (for ASan / valgrind / Miri legs).
    pub fn new(n: usize, fill: u8, exact: bool) -> Guarded {
        let guard = if exact { 0 } else { 64 };
        let mut buf = vec![0u8; n + 2 * guard];
        for (i, b) in buf.iter_mut().enumerate() {
            *b = Self::canary(i);
        }
        for b in buf[guard..guard + n].iter_mut() {
            *b = fill;
        }
        Guarded {
            buf,
            guard,
            n,
            exact,
        }
    }
    fn canary(i: usize) -> u8 {
        (i as u8).wrapping_mul(167).wrapping_add(0x5A)
    }
    pub fn slice(&mut self) -> &mut [u8] {
        let g = self.guard;
        let n = self.n;
        &mut self.buf[g..g + n]
    }
    pub fn fill_with(&mut self, data: &[u8]) {
        let g = self.guard;
        let n = self.n.min(data.len());
        self.buf[g..g + n].copy_from_slice(&data[..n]);
    }
    /// true if guard zones are intact
    pub fn intact(&self) -> bool {
        let g = self.guard;
        for i in 0..g {
            if self.buf[i] != Self::canary(i) {
                return false;
            }
        }
        for i in g + self.n..self.buf.len() {
            if self.buf[i] != Self::canary(i) {
                return false;
            }
        }
        true
    }
}

/// true when running under Miri
pub fn under_miri() -> bool {
    cfg!(miri)
}
