//! Reference model of the store (DESIGN.md Appendix A): what is retrievable, which ids and
//! addresses carry deletion markers, extra tables. Deterministic, no I/O, encodes only what the
//! properties state. Where the properties leave a choice the caller passes the observed outcome.
#![allow(dead_code)]

use crate::sem::*;
use crate::util::*;
use std::collections::{BTreeMap, BTreeSet};
use std::rc::Rc;

pub type Id32 = [u8; 32];

#[derive(Debug)]
pub struct Ev {
    pub sem: SemEvent,
    pub bytes: Vec<u8>,
}

impl Ev {
    pub fn new(sem: SemEvent) -> Option<Rc<Ev>> {
        let o = sem.to_owned().ok()?;
        Some(Rc::new(Ev { bytes: o.as_bytes().to_vec(), sem }))
    }
    pub fn short(&self) -> String {
        format!("{}/k{}/a{}/t{}", hex(&self.sem.id[..3]), self.sem.kind, hex(&self.sem.pubkey[..2]), self.sem.created_at)
    }
}

#[derive(Clone, Debug, PartialEq, Eq, PartialOrd, Ord, Hash)]
pub struct AddrKey {
    pub kind: u16,
    pub author: Id32,
    pub d: Vec<u8>,
}

impl AddrKey {
    pub fn to_tag_value(&self) -> String {
        format!("{}:{}:{}", self.kind, hex(&self.author), String::from_utf8_lossy(&self.d))
    }
    pub fn short(&self) -> String {
        format!("{}:{}:{}", self.kind, hex(&self.author[..2]), show(&self.d, 16))
    }
}

pub fn is_replaceable(k: u16) -> bool {
    k == 0 || k == 3 || (10000..20000).contains(&k)
}
pub fn is_ephemeral(k: u16) -> bool {
    (20000..30000).contains(&k)
}
pub fn is_param(k: u16) -> bool {
    (30000..40000).contains(&k)
}

/// The replaceable address of an event, if it has one
pub fn addr_of(e: &SemEvent) -> Option<AddrKey> {
    if is_replaceable(e.kind) {
        return Some(AddrKey { kind: e.kind, author: e.pubkey, d: vec![] });
    }
    if is_param(e.kind) {
        // first tag named "d" decides; it needs a value
        for t in &e.tags {
            if !t.is_empty() && t[0] == "d" {
                return t.get(1).map(|v| AddrKey { kind: e.kind, author: e.pubkey, d: v.as_bytes().to_vec() });
            }
        }
    }
    None
}

fn hex32(s: &str) -> Option<Id32> {
    if s.len() != 64 {
        return None;
    }
    let b = unhex(s)?;
    let mut a = [0u8; 32];
    a.copy_from_slice(&b);
    Some(a)
}

/// strict parse of "kind:author:d" (the generators only emit canonical or clearly malformed forms)
pub fn parse_addr(s: &str) -> Option<AddrKey> {
    let mut it = s.splitn(3, ':');
    let k = it.next()?;
    let a = it.next()?;
    let d = it.next()?;
    if k.is_empty() || !k.bytes().all(|c| c.is_ascii_digit()) {
        return None;
    }
    let kind: u16 = k.parse().ok()?;
    Some(AddrKey { kind, author: hex32(a)?, d: d.as_bytes().to_vec() })
}

#[derive(Clone, Debug, PartialEq, Eq)]
pub enum Target {
    Id(Id32),
    Addr(AddrKey),
}

/// The effective targets of a deletion request, in tag order
pub fn deletion_targets(e: &SemEvent) -> Vec<Target> {
    let mut v = vec![];
    if e.kind != 5 {
        return v;
    }
    for t in &e.tags {
        if t.len() >= 2 && t[0] == "e" {
            if let Some(id) = hex32(&t[1]) {
                v.push(Target::Id(id));
            }
        } else if t.len() >= 2 && t[0] == "a" {
            if let Some(a) = parse_addr(&t[1]) {
                v.push(Target::Addr(a));
            }
        }
    }
    v
}

#[derive(Clone, Debug, Default)]
pub struct Reasons {
    pub dup: bool,
    pub del: bool,
    pub old: bool,
    pub eq: bool,
    pub foreign: bool,
}

impl Reasons {
    pub fn must_fail(&self) -> bool {
        self.dup || self.del || self.old || self.foreign
    }
    pub fn describe(&self) -> String {
        let mut v = vec![];
        if self.dup { v.push("DUP") }
        if self.del { v.push("DEL") }
        if self.old { v.push("OLD") }
        if self.eq { v.push("EQ") }
        if self.foreign { v.push("FOREIGN") }
        if v.is_empty() { "none".into() } else { v.join("+") }
    }
}

#[derive(Clone, Debug, PartialEq, Eq)]
pub enum ErrClass {
    Duplicate,
    Deleted,
    Replaced,
    InvalidDelete,
    Other(String),
}

#[derive(Clone, Debug, PartialEq, Eq)]
pub enum Outcome {
    Ok(u64),
    Err(ErrClass),
}

impl Outcome {
    pub fn is_ok(&self) -> bool {
        matches!(self, Outcome::Ok(_))
    }
    pub fn short(&self) -> String {
        match self {
            Outcome::Ok(o) => format!("Ok({o})"),
            Outcome::Err(ErrClass::Other(s)) => format!("Err(Other:{})", &s[..s.len().min(60)]),
            Outcome::Err(c) => format!("Err({c:?})"),
        }
    }
}

#[derive(Clone, Default)]
pub struct Model {
    pub r: BTreeMap<Id32, Rc<Ev>>,
    pub d: BTreeSet<Id32>,
    pub a: BTreeMap<AddrKey, u64>,
    pub x: BTreeMap<String, BTreeMap<Vec<u8>, Vec<u8>>>,
}

/// A disagreement between the observed outcome of a store and what the properties allow
#[derive(Clone, Debug)]
pub struct Verdict {
    pub props: Vec<&'static str>,
    pub signature: String,
    pub detail: String,
}

impl Model {
    pub fn new() -> Model {
        Model::default()
    }

    /// events of R at an address (replaceable kinds: (kind, author) whatever the d; parameterised: exact first d value)
    pub fn events_at(&self, a: &AddrKey) -> Vec<Rc<Ev>> {
        self.r
            .values()
            .filter(|e| {
                if e.sem.kind != a.kind || e.sem.pubkey != a.author {
                    return false;
                }
                if is_replaceable(a.kind) {
                    true
                } else if is_param(a.kind) {
                    addr_of(&e.sem).map(|x| x.d == a.d).unwrap_or(false)
                } else {
                    false
                }
            })
            .cloned()
            .collect()
    }

    pub fn holder(&self, a: &AddrKey) -> Option<Rc<Ev>> {
        // the newest, should there (wrongly) be several
        self.events_at(a).into_iter().max_by_key(|e| (e.sem.created_at, e.sem.id))
    }

    pub fn reasons(&self, e: &SemEvent) -> Reasons {
        let mut r = Reasons::default();
        r.dup = self.r.contains_key(&e.id);
        r.del = self.d.contains(&e.id);
        if let Some(a) = addr_of(e) {
            if let Some(t) = self.a.get(&a) {
                if e.created_at <= *t {
                    r.del = true;
                }
            }
            for h in self.events_at(&a) {
                if h.sem.id == e.id {
                    continue;
                }
                if e.created_at < h.sem.created_at {
                    r.old = true;
                } else if e.created_at == h.sem.created_at {
                    r.eq = true;
                }
            }
        }
        for t in deletion_targets(e) {
            match t {
                Target::Id(id) => {
                    if let Some(v) = self.r.get(&id) {
                        if v.sem.pubkey != e.pubkey {
                            r.foreign = true;
                        }
                    }
                }
                Target::Addr(a) => {
                    if a.author != e.pubkey {
                        r.foreign = true;
                    }
                }
            }
        }
        r
    }

    /// Judge an observed outcome of `store(e)` against the rules; the model is NOT changed.
    /// `was_removed_before`: the event was explicitly removed earlier (for the resubmission clause of C18).
    pub fn judge_store(&self, e: &SemEvent, out: &Outcome, named_by_failed_foreign_request: bool, was_removed_before: bool) -> Vec<Verdict> {
        let rs = self.reasons(e);
        let mut v = vec![];
        let ctx = format!("event {}/k{}/t{} reasons {} outcome {}", hex(&e.id[..3]), e.kind, e.created_at, rs.describe(), out.short());
        match out {
            Outcome::Ok(_) => {
                if rs.del {
                    v.push(Verdict { props: vec!["C11"], signature: "covered-event-accepted".into(), detail: ctx.clone() });
                }
                if rs.old {
                    v.push(Verdict { props: vec!["C09"], signature: "older-than-holder-accepted".into(), detail: ctx.clone() });
                }
                if rs.foreign {
                    v.push(Verdict { props: vec!["C10"], signature: "request-with-foreign-target-accepted".into(), detail: ctx.clone() });
                }
            }
            Outcome::Err(c) => {
                match c {
                    ErrClass::Deleted => {
                        if !rs.del {
                            let mut props = vec!["C11"];
                            if named_by_failed_foreign_request {
                                props.push("C10");
                            }
                            if was_removed_before {
                                // explicit removal leaves no deletion marker (C18)
                                props.push("C18");
                            }
                            v.push(Verdict { props, signature: "refused-as-deleted-without-covering-deletion".into(), detail: ctx.clone() });
                        }
                    }
                    ErrClass::Replaced => {
                        if !(rs.old || rs.eq) {
                            v.push(Verdict { props: vec!["C09"], signature: "refused-as-replaced-without-newer-holder".into(), detail: ctx.clone() });
                        }
                    }
                    ErrClass::Duplicate => {
                        if !rs.dup && was_removed_before {
                            v.push(Verdict { props: vec!["C18"], signature: "removed-event-refused-as-duplicate".into(), detail: ctx.clone() });
                        }
                    }
                    _ => {}
                }
                if rs.del && *c != ErrClass::Deleted && !matches!(c, ErrClass::Other(_)) {
                    v.push(Verdict { props: vec!["C11"], signature: "covered-event-not-refused-as-deleted".into(), detail: ctx.clone() });
                }
            }
        }
        v
    }

    /// Effects of a successful store
    pub fn apply_store(&mut self, ev: &Rc<Ev>) {
        let e = &ev.sem;
        if is_ephemeral(e.kind) {
            return;
        }
        if let Some(a) = addr_of(e) {
            let olds: Vec<Id32> = self.events_at(&a).iter().filter(|h| h.sem.created_at <= e.created_at).map(|h| h.sem.id).collect();
            for id in olds {
                let _ = self.r.remove(&id);
            }
        }
        let _ = self.r.insert(e.id, ev.clone());
        for t in deletion_targets(e) {
            match t {
                Target::Id(id) => {
                    if id != e.id {
                        let _ = self.r.remove(&id);
                    }
                    let _ = self.d.insert(id);
                }
                Target::Addr(a) => {
                    let cur = self.a.get(&a).copied();
                    let new = cur.map(|c| c.max(e.created_at)).unwrap_or(e.created_at);
                    let _ = self.a.insert(a.clone(), new);
                    let gone: Vec<Id32> = self.events_at(&a).iter().filter(|h| h.sem.created_at <= e.created_at && h.sem.id != e.id).map(|h| h.sem.id).collect();
                    for id in gone {
                        let _ = self.r.remove(&id);
                    }
                }
            }
        }
    }

    pub fn apply_remove(&mut self, id: &Id32) {
        let _ = self.r.remove(id);
    }

    /// ids that vanish(pk) targets
    pub fn vanish_targets(&self, pk: &Id32) -> BTreeSet<Id32> {
        let pkhex = hex(pk);
        self.r
            .values()
            .filter(|e| {
                e.sem.pubkey == *pk
                    || (e.sem.kind == 1059 && e.sem.tags.iter().any(|t| t.len() >= 2 && t[0] == "p" && t[1] == pkhex))
            })
            .map(|e| e.sem.id)
            .collect()
    }

    pub fn apply_vanish(&mut self, pk: &Id32) {
        for id in self.vanish_targets(pk) {
            let _ = self.r.remove(&id);
        }
    }

    /// The events a query may return: retrievable, matching, passing the screen
    pub fn qualifying(&self, f: &SemFilter, screen: &dyn Fn(&SemEvent) -> u8) -> Vec<Rc<Ev>> {
        let mut v: Vec<Rc<Ev>> = self.r.values().filter(|e| f.matches(&e.sem) && screen(&e.sem) == 0).cloned().collect();
        v.sort_by(|a, b| (b.sem.created_at, b.sem.id).cmp(&(a.sem.created_at, a.sem.id)));
        v
    }
}
