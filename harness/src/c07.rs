//! C07 — Filter JSON parsing is faithful, order-independent and round-trips.
use crate::jsonref::{extract_filter, RefErr, RefInt};
use crate::sem::*;
use crate::util::*;
use pocket_types::Filter;
use serde_json::json;
use std::collections::BTreeMap;

pub fn errkind(e: &pocket_types::Error) -> String {
    crate::c01::errkind(e)
}

/// What pocket made of a filter text: Err(kind,msg) or the accessor values + raw bytes
#[derive(Clone, Debug)]
pub struct Parsed {
    pub consumed: usize,
    pub bytes: Vec<u8>,
    pub ids: Vec<[u8; 32]>,
    pub authors: Vec<[u8; 32]>,
    pub kinds: Vec<u16>,
    pub tags: Vec<Vec<Vec<u8>>>,
    pub since: u64,
    pub until: u64,
    pub limit: u32,
}

impl Parsed {
    /// order-insensitive meaning: tag constraints as letter -> values
    fn meaning(&self) -> (Vec<[u8; 32]>, Vec<[u8; 32]>, Vec<u16>, BTreeMap<Vec<u8>, Vec<Vec<u8>>>, u64, u64, u32) {
        let mut m = BTreeMap::new();
        for t in &self.tags {
            if let Some(first) = t.first() {
                let _ = m.insert(first.clone(), t[1..].to_vec());
            }
        }
        (self.ids.clone(), self.authors.clone(), self.kinds.clone(), m, self.since, self.until, self.limit)
    }
}

pub fn parse(text: &[u8], buflen: usize) -> Result<Result<Parsed, (String, String)>, PanicInfo> {
    // the output buffer has prior contents (a re-used scratch buffer): every byte of the result must be written
    let fill = [0x00u8, 0xFF, 0xAA, 0x55, 0x01][(fnv(text) % 5) as usize];
    let mut g = Guarded::new(buflen, fill, under_miri());
    let r = catch(|| match Filter::from_json(text, g.slice()) {
        Ok((consumed, outlen, f)) => {
            let _ = outlen;
            let tags = f
                .tags()
                .map(|t| t.iter().map(|tag| tag.map(|s| s.to_vec()).collect::<Vec<_>>()).collect::<Vec<_>>())
                .map_err(|e| ("tags()".to_string(), format!("{e}")))?;
            Ok(Parsed {
                consumed,
                bytes: f.as_bytes().to_vec(),
                ids: f.ids().map(|i| { let mut a = [0u8; 32]; a.copy_from_slice(i.as_slice()); a }).collect(),
                authors: f.authors().map(|i| *i.as_bytes()).collect(),
                kinds: f.kinds().map(|k| k.as_u16()).collect(),
                tags,
                since: f.since().as_u64(),
                until: f.until().as_u64(),
                limit: f.limit(),
            })
        }
        Err(e) => Err((errkind(&e), format!("{e}"))),
    });
    if !g.intact() {
        return Err(PanicInfo { location: "guard".into(), message: "write outside the output buffer".into() });
    }
    r
}

fn replay_text(class: &str, text: &[u8]) -> serde_json::Value {
    json!({"kind":"filter-text","class":class,"text_hex":hex(text),"text":show(text, 500)})
}

/// in-domain text: must be accepted and agree with serde. Returns pocket's parse when accepted.
pub fn check_in_domain(rep: &mut Report, text: &[u8], class: &str, end: usize) -> Option<Parsed> {
    rep.eval(fnv(text), text.len() > 2);
    let reff = match extract_filter(&text[..end]) {
        Ok(r) => r,
        Err(e) => {
            rep.count("harness_error_oracle_rejects_generated_text");
            rep.notes.push(format!("oracle rejects generated text ({class}): {e:?}"));
            return None;
        }
    };
    let sem = match reff.to_sem() {
        Some(s) => s,
        None => {
            rep.count("harness_error_generated_out_of_range");
            return None;
        }
    };
    match parse(text, 4096 + 4 * text.len()) {
        Err(p) => {
            rep.finding(&format!("panic:{class}:{}@{}", panic_class(&p.message), p.location), &p.message, replay_text(class, text));
            None
        }
        Ok(Err((kind, msg))) => {
            rep.finding(&format!("rejected-in-domain:{class}:{kind}"), &format!("in-domain filter text rejected: {msg}"), replay_text(class, text));
            None
        }
        Ok(Ok(p)) => {
            if p.consumed != end {
                rep.finding(&format!("consumed-length-wrong:{class}"), &format!("consumed {} but the object ends at {end}", p.consumed), replay_text(class, text));
            }
            let mut buf = p.bytes.clone();
            let diffs = match unsafe { Filter::delineate(&mut buf) } {
                Ok(f) => catch(|| sem.diff_pocket(f)).unwrap_or_else(|pi| vec![format!("accessor panic: {}", pi.message)]),
                Err(e) => vec![format!("not delineable: {e}")],
            };
            if !diffs.is_empty() {
                rep.finding(
                    &format!("values-differ:{class}:{}", diffs[0].split(|c| c == ' ' || c == ':').next().unwrap_or("?")),
                    &format!("accessors disagree with the independent parser: {}", diffs.join("; ")),
                    replay_text(class, text),
                );
            }
            rep.count("compared_with_independent_parser");
            Some(p)
        }
    }
}

/// integer-boundary texts: exact, saturated, or rejected - never wrapped
fn check_int_boundary(rep: &mut Report, member: &str, text_value: &str, order_variant: usize) {
    let members: Vec<String> = match order_variant % 3 {
        0 => vec![format!("\"{member}\":{text_value}")],
        1 => vec![format!("\"kinds\":[1]"), format!("\"{member}\":{text_value}")],
        _ => vec![format!("\"{member}\":{text_value}"), format!("\"#e\":[\"x\"]")],
    };
    let text = format!("{{{}}}", members.join(",")).into_bytes();
    rep.eval(fnv(&text), true);
    rep.count("int_boundary_cases");
    let exact: Option<u128> = text_value.parse::<u128>().ok();
    let (maxv, is_limit): (u128, bool) = if member == "limit" { (u32::MAX as u128, true) } else { (u64::MAX as u128, false) };
    match parse(&text, 4096) {
        Err(p) => rep.finding(
            &format!("panic:int-boundary:{member}:{}@{}", panic_class(&p.message), p.location),
            &format!("{member}={text_value}: {}", p.message),
            replay_text("int-boundary", &text),
        ),
        Ok(Err(_)) => {
            rep.count("int_boundary_rejected");
            if let Some(v) = exact {
                if v <= maxv {
                    rep.finding(
                        &format!("rejected-in-domain:int-boundary:{member}"),
                        &format!("{member}={text_value} is representable but was rejected"),
                        replay_text("int-boundary", &text),
                    );
                }
            }
        }
        Ok(Ok(p)) => {
            let got: u128 = match member {
                "limit" => p.limit as u128,
                "since" => p.since as u128,
                _ => p.until as u128,
            };
            let _ = is_limit;
            match exact {
                Some(v) if v <= maxv => {
                    if got != v {
                        rep.finding(&format!("values-differ:int-boundary:{member}"), &format!("{member}={text_value} read as {got}"), replay_text("int-boundary", &text));
                    }
                }
                _ => {
                    if got != maxv {
                        rep.finding(
                            &format!("integer-wrapped:{member}"),
                            &format!("{member}={text_value} does not fit; accepted and read as {got} (neither rejected nor saturated to {maxv})"),
                            replay_text("int-boundary", &text),
                        );
                    } else {
                        rep.count("int_boundary_saturated");
                    }
                }
            }
        }
    }
}

/// The same member set in several orders: uniformly accepted or rejected, same meaning.
fn check_orders(rep: &mut Report, rng: &mut Rng, f: &SemFilter, base: &FilterRender, orders: &[Vec<FMember>], class: &str) {
    let mut outcomes: Vec<(Vec<u8>, Result<Parsed, String>)> = vec![];
    for o in orders {
        let mut r = base.clone();
        r.order = o.clone();
        let (text, _) = render_filter(f, &r, rng);
        rep.eval(fnv(&text), true);
        match parse(&text, 4096 + 4 * text.len()) {
            Err(p) => {
                rep.finding(&format!("panic:{class}:{}@{}", panic_class(&p.message), p.location), &p.message, replay_text(class, &text));
                outcomes.push((text, Err("panic".into())));
            }
            Ok(Err((k, _))) => outcomes.push((text, Err(k))),
            Ok(Ok(p)) => outcomes.push((text, Ok(p))),
        }
    }
    rep.count_n("orders_compared", outcomes.len() as u64);
    let accepted: Vec<&(Vec<u8>, Result<Parsed, String>)> = outcomes.iter().filter(|o| o.1.is_ok()).collect();
    let rejected: Vec<&(Vec<u8>, Result<Parsed, String>)> = outcomes.iter().filter(|o| o.1.is_err()).collect();
    if !accepted.is_empty() && !rejected.is_empty() {
        rep.finding(
            &format!("acceptance-depends-on-member-order:{class}"),
            &format!("accepted: {} ; rejected ({}): {}", show(&accepted[0].0, 200), rejected[0].1.as_ref().err().unwrap(), show(&rejected[0].0, 200)),
            json!({"kind":"filter-orders","class":class,"accepted_hex":hex(&accepted[0].0),"rejected_hex":hex(&rejected[0].0)}),
        );
    }
    if accepted.len() > 1 {
        let m0 = accepted[0].1.as_ref().unwrap().meaning();
        for a in accepted.iter().skip(1) {
            if a.1.as_ref().unwrap().meaning() != m0 {
                rep.finding(
                    &format!("meaning-depends-on-member-order:{class}"),
                    &format!("{} vs {}", show(&accepted[0].0, 200), show(&a.0, 200)),
                    json!({"kind":"filter-orders","class":class,"accepted_hex":hex(&accepted[0].0),"rejected_hex":hex(&a.0)}),
                );
                break;
            }
        }
    }
}

/// Round trip of a filter value (from the parser or from parts)
fn check_roundtrip(rep: &mut Report, bytes: &[u8], sem: Option<&SemFilter>, class: &str) {
    let mut b = bytes.to_vec();
    let f = match unsafe { Filter::delineate(&mut b) } {
        Ok(f) => f,
        Err(_) => return,
    };
    rep.count("roundtrips");
    let rp = json!({"kind":"filter-bytes","class":class,"bytes_hex":hex(bytes)});
    let j = match catch(|| f.as_json()) {
        Ok(Ok(j)) => j,
        Ok(Err(e)) => {
            rep.finding("as_json-error", &format!("{e}"), rp);
            return;
        }
        Err(p) => {
            rep.finding(&format!("as_json-panic:{}@{}", panic_class(&p.message), p.location), &p.message, rp);
            return;
        }
    };
    match extract_filter(&j) {
        Err(RefErr::DupKeys(_)) => {
            // a from_parts filter may repeat a letter: its JSON has duplicate keys (meaning undefined)
            rep.count("as_json_dup_keys(no claim)");
            return;
        }
        Err(e) => {
            rep.finding(
                "as_json-not-valid-json",
                &format!("{e:?}: {}", show(&j, 300)),
                json!({"kind":"filter-bytes","class":class,"bytes_hex":hex(bytes),"json":show(&j,400)}),
            );
            return;
        }
        Ok(r) => {
            if let Some(want) = sem {
                // same values?
                let got = r.to_sem();
                let same = match &got {
                    Some(g) => {
                        let mut gt = g.tags.clone();
                        let mut wt = want.tags.clone();
                        gt.sort();
                        wt.sort();
                        g.ids == want.ids && g.authors == want.authors && g.kinds == want.kinds && gt == wt
                            && g.eff_since() == want.eff_since() && g.eff_until() == want.eff_until() && g.eff_limit() == want.eff_limit()
                    }
                    None => false,
                };
                if !same {
                    rep.finding("as_json-unfaithful", &format!("json {} denotes other values than the filter holds", show(&j, 300)), rp.clone());
                }
            } else {
                // compare against pocket's own accessors
                if r.since == RefInt::Absent && f.since().as_u64() != 0 { rep.finding("as_json-unfaithful", "since dropped", rp.clone()); }
            }
        }
    }
    match parse(&j, bytes.len() + 64) {
        Ok(Ok(p)) => {
            if p.bytes != bytes {
                rep.finding("reparse-of-as_json-differs", &format!("json {}", show(&j, 300)), rp);
            }
        }
        Ok(Err((k, m))) => rep.finding(&format!("reparse-of-as_json-rejected:{k}"), &format!("{m}: {}", show(&j, 300)), rp),
        Err(p) => rep.finding(&format!("reparse-panic:{}@{}", panic_class(&p.message), p.location), &p.message, rp),
    }
}

fn letters() -> Vec<char> {
    ('A'..='Z').chain('a'..='z').collect()
}

pub fn rand_filter(rng: &mut Rng, max_letters: usize) -> SemFilter {
    let hexish = |rng: &mut Rng| hex(&rng.arr32());
    let nl = rng.usize_below(max_letters + 1);
    let mut ls = letters();
    rng.shuffle(&mut ls);
    let mut tags = vec![];
    for l in ls.into_iter().take(nl) {
        let nv = match rng.below(6) { 0 => 0, 1 => 1, _ => 1 + rng.usize_below(4) };
        let mut vs = vec![];
        for _ in 0..nv {
            vs.push(match rng.below(4) { 0 => hexish(rng), 1 => rand_string(rng, 20), 2 => String::new(), _ => "a\"b\\c\n\u{e9}".to_string() });
        }
        tags.push((l.to_string(), vs));
    }
    let list32 = |rng: &mut Rng| -> Vec<[u8; 32]> {
        let n = match rng.below(5) { 0 | 1 => 0, 2 => 1, _ => 1 + rng.usize_below(5) };
        (0..n).map(|_| rng.arr32()).collect()
    };
    let int = |rng: &mut Rng| -> Option<u64> {
        match rng.below(6) { 0 | 1 | 2 => None, 3 => Some(rng.below(2_000_000_000)), 4 => Some(*rng.pick(&[0u64, 1, u64::MAX, u64::MAX - 1, 1 << 32, (1 << 32) - 1])), _ => Some(rng.next_u64()) }
    };
    SemFilter {
        ids: list32(rng),
        authors: list32(rng),
        kinds: { let n = rng.usize_below(5); (0..n).map(|_| *rng.pick(&[0u16, 1, 3, 5, 7, 1059, 30023, 65535])).collect() },
        tags,
        since: int(rng),
        until: int(rng),
        limit: match rng.below(5) { 0 | 1 => None, 2 => Some(0), 3 => Some(u32::MAX), _ => Some(rng.below(1000) as u32) },
    }
}

pub fn run(args: &Args) -> Report {
    let mut rep = Report::new("C07", &args.leg(), &args.tier(), args.seed());
    let mut rng = Rng::new(args.seed() ^ 0xC07);
    let thorough = args.thorough();
    let sample = args.get("sample").map(|_| args.get_u64("sample", 0));

    if sample.is_none() {
        // 1. every ordered pair of tag letters (52 x 52, incl. the same letter twice = duplicate key, skipped)
        let ls = letters();
        for &a in ls.iter() {
            for &b in ls.iter() {
                if a == b {
                    continue;
                }
                let f = SemFilter { tags: vec![(a.to_string(), vec!["v1".into()]), (b.to_string(), vec!["v2".into(), "v3".into()])], ..SemFilter::empty() };
                let (text, _) = render_filter(&f, &FilterRender::plain(&f), &mut rng);
                let end = text.len();
                let _ = check_in_domain(&mut rep, &text, "letter-pair", end);
                rep.count("letter_pairs");
            }
        }
        rep.exhaustive = true;
        // single letters
        for &a in ls.iter() {
            let f = SemFilter { tags: vec![(a.to_string(), vec![hex(&[7u8; 32])])], ..SemFilter::empty() };
            let (text, _) = render_filter(&f, &FilterRender::plain(&f), &mut rng);
            let end = text.len();
            let _ = check_in_domain(&mut rep, &text, "single-letter", end);
        }
        // larger sets of letters: 3..52
        let nsets = if thorough { 3000 } else { 150 };
        for k in 0..nsets {
            let n = 3 + (k % 50);
            let mut l2 = ls.clone();
            rng.shuffle(&mut l2);
            let f = SemFilter { tags: l2.iter().take(n).map(|c| (c.to_string(), vec!["x".to_string()])).collect(), ..SemFilter::empty() };
            let (text, _) = render_filter(&f, &FilterRender::plain(&f), &mut rng);
            let end = text.len();
            let _ = check_in_domain(&mut rep, &text, "letter-set", end);
            rep.set_max("max_letters_in_one_filter", n as u64);
        }

        // 2. integer boundaries
        let limits = ["0", "1", "4294967294", "4294967295", "4294967296", "4294967297", "8589934591", "8589934592", "18446744073709551615", "18446744073709551616", "99999999999999999999999"];
        let times = ["0", "1", "4294967296", "9223372036854775808", "18446744073709551614", "18446744073709551615", "18446744073709551616", "18446744073709551617", "36893488147419103232", "99999999999999999999999"];
        for (i, l) in limits.iter().enumerate() {
            for v in 0..3 {
                check_int_boundary(&mut rep, "limit", l, i + v);
            }
        }
        for (i, t) in times.iter().enumerate() {
            for v in 0..3 {
                check_int_boundary(&mut rep, "since", t, i + v);
                check_int_boundary(&mut rep, "until", t, i + v);
            }
        }
        // a sweep, not only boundary points: 20..24-digit values with every pair of leading digits for
        // since/until/limit, and limit values over the whole 33..66-bit range
        {
            let mut r2 = Rng::new(0x1A7E);
            let mut big: Vec<String> = vec![];
            for lead in 18u32..=99 {
                let tail: String = (0..18).map(|_| (b'0' + r2.below(10) as u8) as char).collect();
                let v = format!("{lead}{tail}");
                if v.parse::<u128>().unwrap() > u64::MAX as u128 {
                    big.push(v);
                }
            }
            for digits in 21usize..=24 {
                for lead in 1u32..=9 {
                    let tail: String = (0..digits - 1).map(|_| (b'0' + r2.below(10) as u8) as char).collect();
                    big.push(format!("{lead}{tail}"));
                }
            }
            for (i, t) in big.iter().enumerate() {
                check_int_boundary(&mut rep, "since", t, i);
                check_int_boundary(&mut rep, "until", t, i + 1);
                check_int_boundary(&mut rep, "limit", t, i + 2);
            }
            for bits in 32u32..=66 {
                let base: u128 = 1u128 << bits;
                for add in [0u128, 1, 5, 4294967295] {
                    check_int_boundary(&mut rep, "limit", &format!("{}", base + add), bits as usize);
                }
                check_int_boundary(&mut rep, "limit", &format!("{}", base + (r2.next_u64() as u128 % base)), bits as usize);
            }
            rep.count_n("int_sweep_values", big.len() as u64);
        }
        // kinds out of range: rejected or saturated
        let mut kind_texts: Vec<String> = ["65535", "65536", "70000", "4294967296", "18446744073709551616"].iter().map(|s| s.to_string()).collect();
        {
            let mut r2 = Rng::new(0x1A7F);
            for bits in 16u32..=66 {
                let base: u128 = 1u128 << bits;
                kind_texts.push(format!("{}", base + 1));
                kind_texts.push(format!("{}", base + (r2.next_u64() as u128 % base)));
            }
            for lead in 18u32..=99 {
                let tail: String = (0..18).map(|_| (b'0' + r2.below(10) as u8) as char).collect();
                kind_texts.push(format!("{lead}{tail}"));
            }
        }
        for k in kind_texts.iter().map(|s| s.as_str()) {
            let text = format!("{{\"kinds\":[1,{k}]}}").into_bytes();
            rep.eval(fnv(&text), true);
            match parse(&text, 4096) {
                Ok(Ok(p)) => {
                    let v: u128 = k.parse().unwrap();
                    let got = *p.kinds.get(1).unwrap_or(&0) as u128;
                    if v <= 65535 && got != v { rep.finding("values-differ:kinds", &format!("{k} read as {got}"), replay_text("int-boundary", &text)); }
                    if v > 65535 && got != 65535 { rep.finding("integer-wrapped:kinds", &format!("kind {k} accepted and read as {got}"), replay_text("int-boundary", &text)); }
                }
                Ok(Err(_)) => { if k == "65535" { rep.finding("rejected-in-domain:int-boundary:kinds", "kind 65535 rejected", replay_text("int-boundary", &text)); } }
                Err(p) => rep.finding(&format!("panic:int-boundary:kinds:{}@{}", panic_class(&p.message), p.location), &p.message, replay_text("int-boundary", &text)),
            }
        }

        // 3. every subset of the 7 member kinds, every order for n <= 6 members (sampled above)
        let full = SemFilter {
            ids: vec![[0x11; 32], [0x12; 32]],
            authors: vec![[0x21; 32]],
            kinds: vec![1, 30023],
            tags: vec![("e".into(), vec![hex(&[9u8; 32])]), ("t".into(), vec!["nostr".into(), "a\"b".into()])],
            since: Some(1_700_000_000),
            until: Some(1_800_000_000),
            limit: Some(10),
        };
        for mask in 0u32..128 {
            let mut f = full.clone();
            if mask & 1 == 0 { f.ids.clear(); }
            if mask & 2 == 0 { f.authors.clear(); }
            if mask & 4 == 0 { f.kinds.clear(); }
            if mask & 8 == 0 { f.since = None; }
            if mask & 16 == 0 { f.until = None; }
            if mask & 32 == 0 { f.limit = None; }
            if mask & 64 == 0 { f.tags.clear(); }
            let members = FilterRender::members_of(&f);
            let n = members.len();
            let perms: Vec<Vec<usize>> = if n <= 6 { permutations(n) } else {
                let mut v = vec![];
                for _ in 0..(if thorough { 400 } else { 60 }) {
                    let mut p: Vec<usize> = (0..n).collect();
                    rng.shuffle(&mut p);
                    v.push(p);
                }
                v
            };
            let orders: Vec<Vec<FMember>> = perms.iter().map(|p| p.iter().map(|i| members[*i].clone()).collect()).collect();
            // faithfulness in each order
            for (k, o) in orders.iter().enumerate() {
                if k % 7 == 0 || thorough {
                    let mut r = FilterRender::plain(&f);
                    r.order = o.clone();
                    let (text, _) = render_filter(&f, &r, &mut rng);
                    let end = text.len();
                    if let Some(p) = check_in_domain(&mut rep, &text, "subset-order", end) {
                        check_roundtrip(&mut rep, &p.bytes, None, "parsed");
                    }
                }
            }
            check_orders(&mut rep, &mut rng, &f, &FilterRender::plain(&f), &orders, "subset-order");
            rep.count("member_subsets");
        }
        rep.sample(json!({"class":"subset-order","text":show(&render_filter(&full, &FilterRender::plain(&full), &mut rng).0, 400)}));

        // 4. unknown members at every position; whitespace at every gap
        let unknown_vals: [&str; 10] = ["\"text\"", "1", "null", "true", "[]", "{}", "[1,[2,{\"a\":null}]]", "{\"ids\":[\"x\"]}", "-1.5e3", "\"]\""];
        let members = FilterRender::members_of(&full);
        for (vi, val) in unknown_vals.iter().enumerate() {
            for pos in 0..=members.len() {
                let mut r = FilterRender::plain(&full);
                let key = ["search", "x", "id", "idss", "kind", "#ee", "limits", "", "since_", "#"][(vi + pos) % 10];
                r.unknown = vec![Unknown { pos, key_text: format!("\"{key}\"").into_bytes(), val_text: val.as_bytes().to_vec() }];
                let (text, _) = render_filter(&full, &r, &mut rng);
                let end = text.len();
                let _ = check_in_domain(&mut rep, &text, "unknown-member", end);
                rep.count("unknown_member_cases");
            }
        }
        let (_, ngaps) = render_filter(&full, &FilterRender::plain(&full), &mut rng);
        for gap in 0..ngaps {
            for b in [0x20u8, 0x09, 0x0a, 0x0d] {
                let mut r = FilterRender::plain(&full);
                r.ws = Ws::OneGap { at: gap, bytes: vec![b] };
                let (text, _) = render_filter(&full, &r, &mut rng);
                let end = text.len();
                let _ = check_in_domain(&mut rep, &text, "whitespace", end);
                rep.count("whitespace_gap_cases");
            }
        }
        // long runs: whitespace, unknown members with long strings / numbers / containers
        {
            for (n, len) in [(0usize, 300usize), (1, 70_000)] {
                for gap in (0..ngaps).filter(|g| (g + n) % 3 == 0) {
                    let mut r = FilterRender::plain(&full);
                    r.ws = Ws::OneGap { at: gap, bytes: (0..len).map(|k| [0x20u8, 0x09, 0x0a, 0x0d][(k + gap) % 4]).collect() };
                    let (text, _) = render_filter(&full, &r, &mut rng);
                    let end = text.len();
                    let _ = check_in_domain(&mut rep, &text, "long-whitespace-run", end);
                    rep.count("long_run_cases");
                }
            }
            let big_s = format!("\"{}\"", "s".repeat(70_000));
            let big_n = "7".repeat(400);
            let big_a = format!("[{}]", vec!["0"; 5_000].join(","));
            let big_o = format!("{{{}}}", (0..3_000).map(|k| format!("\"k{k}\":null")).collect::<Vec<_>>().join(","));
            for (key, val) in [("\"big\"".to_string(), big_s.clone()), (big_s.clone(), "1".to_string()), ("\"n\"".to_string(), big_n), ("\"arr\"".to_string(), big_a), ("\"obj\"".to_string(), big_o)] {
                for pos in [0usize, 3, 99] {
                    let mut r = FilterRender::plain(&full);
                    r.unknown = vec![Unknown { pos, key_text: key.clone().into_bytes(), val_text: val.clone().into_bytes() }];
                    let (text, _) = render_filter(&full, &r, &mut rng);
                    let end = text.len();
                    let _ = check_in_domain(&mut rep, &text, "long-unknown-member", end);
                    rep.count("long_run_cases");
                }
            }
        }
        for val in nested_gap_texts() {
            for pos in [0usize, 3, 99] {
                let mut r = FilterRender::plain(&full);
                r.unknown = vec![Unknown { pos, key_text: b"\"meta\"".to_vec(), val_text: val.clone() }];
                let (text, _) = render_filter(&full, &r, &mut rng);
                let end = text.len();
                let _ = check_in_domain(&mut rep, &text, "whitespace-in-unknown-member", end);
                rep.count("whitespace_gap_cases_inside_unknown_members");
            }
        }
        // an empty list (written [] and [ ]) for each list member at every position among non-empty other members
        {
            let h = "ab".repeat(32);
            let others: Vec<(&str, String)> = vec![
                ("ids", format!("\"ids\":[\"{h}\"]")),
                ("authors", format!("\"authors\":[\"{h}\"]")),
                ("kinds", "\"kinds\":[1,7]".to_string()),
                ("#e", "\"#e\":[\"x]\",\"y\"]".to_string()),
                ("limit", "\"limit\":3".to_string()),
                ("since", "\"since\":5".to_string()),
            ];
            for empty in ["ids", "authors", "kinds", "#e", "#p"] {
                let rest: Vec<&String> = others.iter().filter(|(n, _)| *n != empty).map(|(_, t)| t).collect();
                for pos in 0..=rest.len() {
                    for spelling in ["[]", "[ ]", "[\n]"] {
                        let mut parts: Vec<String> = rest.iter().map(|t| t.to_string()).collect();
                        parts.insert(pos, format!("\"{empty}\":{spelling}"));
                        let text = format!("{{{}}}", parts.join(","));
                        let end = text.len();
                        if let Some(p) = check_in_domain(&mut rep, text.as_bytes(), "empty-list-among-members", end) {
                            check_roundtrip(&mut rep, &p.bytes, None, "parsed");
                        }
                        rep.count("empty_list_position_cases");
                    }
                }
            }
        }
        // empty lists and empty object
        for t in ["{}", "{\"ids\":[]}", "{\"authors\":[],\"kinds\":[]}", "{\"#e\":[]}", "{\"#e\":[],\"#p\":[\"x\"]}", " { } ", "{\"kinds\":[ ]}"] {
            let text = t.as_bytes();
            let end = t.trim_end().len();
            if let Some(p) = check_in_domain(&mut rep, text, "empty-lists", end) {
                check_roundtrip(&mut rep, &p.bytes, None, "parsed");
            }
        }
    }

    // 4b. tag values over the BMP (every 16th scalar and the encoding boundaries; thorough: all), literal and escaped
    if sample.is_none() {
        let stride = if thorough { 1 } else { 16 };
        for c in (0u32..=0xFFFF).filter(|c| c % stride == 0 || [0x7f, 0x80, 0x7ff, 0x800, 0xd7ff, 0xe000, 0xffff].contains(c)) {
            if let Some(ch) = char::from_u32(c) {
                let f = SemFilter { tags: vec![("t".into(), vec![format!("{ch}"), format!("x{ch}y")])], ..SemFilter::empty() };
                for esc in [Esc::Minimal, Esc::AllULower] {
                    let mut r = FilterRender::plain(&f);
                    r.esc = esc;
                    let (text, _) = render_filter(&f, &r, &mut rng);
                    let end = text.len();
                    if let Some(p) = check_in_domain(&mut rep, &text, "tag-value-scalar", end) {
                        check_roundtrip(&mut rep, &p.bytes, Some(&f), "parsed");
                    }
                }
                rep.count("scalar_sweep_filters");
            }
        }
    }

    // 5. random filters: faithful parse, round trip from the parser and from parts, trailing bytes
    let n = sample.unwrap_or(if thorough { 150_000 } else { 3_000 });
    for k in 0..n {
        let f = rand_filter(&mut rng, if k % 5 == 0 { 12 } else { 3 });
        let mut r = FilterRender::plain(&f);
        let mut order = r.order.clone();
        rng.shuffle(&mut order);
        r.order = order;
        if rng.chance(1, 2) { r.ws = Ws::Random; }
        r.esc = *rng.pick(&[Esc::Minimal, Esc::Random, Esc::Short, Esc::AllULower]);
        r.hexcase = *rng.pick(&[HexCase::Lower, HexCase::Lower, HexCase::Upper, HexCase::Mixed]);
        let with_unknown = rng.chance(1, 3);
        if with_unknown {
            let (_, u) = rand_unknown(&mut rng, r.order.len(), &[], &FILTER_KNOWN);
            r.unknown.push(u);
        }
        let (text, _) = render_filter(&f, &r, &mut rng);
        let end = text.len();
        let mut full = text.clone();
        if rng.chance(1, 2) {
            full.extend_from_slice(*rng.pick(&[&b"]"[..], b" ", b",\"x\"", b"}}"]));
        }
        let class = if with_unknown { "random+unknown" } else { "random" };
        if let Some(p) = check_in_domain(&mut rep, &full, class, end) {
            check_roundtrip(&mut rep, &p.bytes, Some(&f), "parsed");
        }
        if let Ok(of) = f.to_owned() {
            check_roundtrip(&mut rep, of.as_bytes(), Some(&f), "from_parts");
        }
        if k < 2 {
            rep.sample(json!({"class":class,"text":show(&full, 400)}));
        }
    }
    rep
}

pub fn replay(v: &serde_json::Value, rep: &mut Report) {
    match v["kind"].as_str().unwrap_or("") {
        "filter-text" => {
            let text = unhex(v["text_hex"].as_str().unwrap_or("")).unwrap_or_default();
            let class = v["class"].as_str().unwrap_or("replay").to_string();
            if class == "int-boundary" {
                // re-derive member and value
                let s = String::from_utf8_lossy(&text).to_string();
                for m in ["limit", "since", "until"] {
                    if let Some(p) = s.find(&format!("\"{m}\":")) {
                        let rest = &s[p + m.len() + 3..];
                        let val: String = rest.chars().take_while(|c| c.is_ascii_digit()).collect();
                        check_int_boundary(rep, m, &val, 0);
                    }
                }
            } else {
                // find the end of the object with serde's streaming parser
                let mut end = text.len();
                let mut it = serde_json::Deserializer::from_slice(&text).into_iter::<serde_json::Value>();
                if let Some(Ok(_)) = it.next() {
                    end = it.byte_offset();
                }
                let p = check_in_domain(rep, &text, &class, end);
                if let Some(p) = p {
                    check_roundtrip(rep, &p.bytes, None, "parsed");
                }
            }
        }
        "filter-bytes" => {
            let b = unhex(v["bytes_hex"].as_str().unwrap_or("")).unwrap_or_default();
            check_roundtrip(rep, &b, None, "replay");
        }
        "filter-orders" => {
            for k in ["accepted_hex", "rejected_hex"] {
                let t = unhex(v[k].as_str().unwrap_or("")).unwrap_or_default();
                let end = t.len();
                let _ = check_in_domain(rep, &t, "replay-order", end);
            }
        }
        _ => {}
    }
}
