//! C19 — Constructors yield faithful well-formed values or an error, never truncation.
use crate::sem::*;
use crate::util::*;
use pocket_types::{Event, Filter, Id, Kind, OwnedEvent, OwnedTags, Pubkey, Sig, Tags, Time};
use serde_json::json;

fn shape_of_tags(parts: &[Vec<String>]) -> serde_json::Value {
    let total: usize = parts.iter().map(|t| t.iter().map(|s| s.len()).sum::<usize>()).sum();
    let maxstr = parts.iter().flat_map(|t| t.iter().map(|s| s.len())).max().unwrap_or(0);
    let maxn = parts.iter().map(|t| t.len()).max().unwrap_or(0);
    json!({"tags":parts.len(),"total_string_bytes":total,"longest_string":maxstr,"most_strings_in_a_tag":maxn})
}

fn tags_len(parts: &[Vec<String>]) -> usize {
    let mut n = 4 + 2 * parts.len();
    for t in parts {
        n += 2;
        for s in t {
            n += 2 + s.len();
        }
    }
    n
}

/// limits of the binary tags format
fn tags_representable(parts: &[Vec<String>]) -> bool {
    tags_len(parts) <= 65535
        && parts.len() <= 65535
        && parts.iter().all(|t| t.len() <= 65535 && t.iter().all(|s| s.len() <= 65535))
}

fn buffer_lengths(needed: usize, rng: &mut Rng) -> Vec<usize> {
    if under_miri() {
        // the interpreter is ~4 orders of magnitude slower: a thin slice of the sweep
        let mut v = vec![0, 3, 151, 152, needed.saturating_sub(1), needed, needed + 1];
        v.push(rng.usize_below(needed + 1));
        v.push(rng.usize_below(needed + 1));
        return v;
    }
    if needed <= 600 {
        (0..=needed + 8).collect()
    } else {
        let mut v = vec![0, 1, 2, 3, 4, 5, 151, 152, 153, needed / 2, needed - 9, needed - 2, needed - 1, needed, needed + 1, needed + 8];
        for _ in 0..6 {
            v.push(rng.usize_below(needed));
        }
        if needed > 65536 {
            v.extend_from_slice(&[65535, 65536, 65537, needed - 65536, needed % 65536]);
        }
        v
    }
}

pub fn check_tags(rep: &mut Report, rng: &mut Rng, parts: &[Vec<String>], label: &str) {
    let needed = tags_len(parts);
    let fits = tags_representable(parts);
    let shape = shape_of_tags(parts);
    let rp = json!({"kind":"tags","label":label,"shape":shape,"parts": if needed < 3000 { json!(parts) } else { json!(null) }});
    rep.eval(fnv(format!("{label}{shape}").as_bytes()), needed > 4);
    rep.count(if fits { "tags_cases_representable" } else { "tags_cases_oversize" });
    match catch(|| Tags::output_size_needed(parts)) {
        Ok(n) if n == needed => {}
        Ok(n) => rep.finding("output_size_needed-wrong:tags", &format!("{n} vs {needed}"), rp.clone()),
        Err(p) => rep.finding(&format!("panic:output_size_needed@{}", p.location), &p.message, rp.clone()),
    }
    match catch(|| OwnedTags::new(parts).map(|t| diff_tags(parts, &t))) {
        Ok(Ok(d)) => {
            if !fits {
                rep.finding(
                    "oversize-accepted:OwnedTags::new",
                    &format!("parts need {needed} bytes / exceed a 16-bit field but were accepted; accessor check: {}", d.first().cloned().unwrap_or("(reads back equal?)".into())),
                    rp.clone(),
                );
            } else if !d.is_empty() {
                rep.finding("unfaithful:OwnedTags::new", &d.join("; "), rp.clone());
            }
        }
        Ok(Err(e)) => {
            if fits {
                rep.finding("refused-representable:OwnedTags::new", &format!("{e}"), rp.clone());
            } else {
                rep.count("oversize_refused");
            }
        }
        Err(p) => rep.finding(&format!("panic:OwnedTags::new:{}@{}", panic_class(&p.message), p.location), &p.message, rp.clone()),
    }
    for n in buffer_lengths(needed, rng) {
        let mut g = Guarded::new(n, 0xCC, under_miri());
        // besides the tags' own accessors: an event built on this very value (in a buffer larger than needed the value
        // must still be exactly the tags, or the event constructors lay the content out in the wrong place)
        let r = catch(|| {
            Tags::from_parts(parts, g.slice()).map(|t| {
                let mut d = diff_tags(parts, t);
                if t.as_bytes().len() <= 65_535 {
                    let content = b"after the tags";
                    let mut ebuf = vec![0x5Au8; Event::output_size_needed(t.as_bytes().len(), content.len()) + 8];
                    match Event::from_parts(Id::from_bytes([1; 32]), Kind::from_u16(1), Pubkey::from_bytes([2; 32]), Sig::from_bytes([3; 64]), t, Time::from_u64(5), content, &mut ebuf) {
                        Ok(ev) => {
                            if ev.content() != content {
                                d.push(format!("an event built on the value has content of {} bytes instead of the {} given", ev.content().len(), content.len()));
                            }
                            match ev.tags() {
                                Ok(et) => d.extend(diff_tags(parts, et).into_iter().map(|x| format!("event built on the value: {x}"))),
                                Err(e) => d.push(format!("event built on the value: tags() fails: {e}")),
                            }
                        }
                        Err(e) => d.push(format!("an event cannot be built on the value: {e}")),
                    }
                }
                (t.as_bytes().len(), d)
            })
        });
        rep.count("buffer_length_cases");
        if !g.intact() {
            rep.finding("write-outside-buffer:Tags::from_parts", "", rp.clone());
        }
        match r {
            Ok(Ok((len, d))) => {
                if n >= needed && fits && len != needed {
                    rep.finding("value-size-depends-on-buffer:Tags::from_parts", &format!("buffer {n}, needed {needed}: the returned value is {len} bytes long"), rp.clone());
                }
                if n < needed {
                    rep.finding("partial-value:Tags::from_parts", &format!("buffer {n} < needed {needed} yet Ok (value of {len} bytes)"), rp.clone());
                } else if !fits {
                    rep.finding("oversize-accepted:Tags::from_parts", &format!("needed {needed}; {}", d.first().cloned().unwrap_or_default()), rp.clone());
                } else if !d.is_empty() {
                    rep.finding("unfaithful:Tags::from_parts", &d.join("; "), rp.clone());
                }
            }
            Ok(Err(e)) => {
                if n >= needed && fits {
                    rep.finding("refused-with-sufficient-buffer:Tags::from_parts", &format!("buffer {n} >= needed {needed}: {e}"), rp.clone());
                }
            }
            Err(p) => rep.finding(
                &format!("panic:Tags::from_parts:{}@{}", panic_class(&p.message), p.location),
                &format!("buffer {n}, needed {needed}: {}", p.message),
                rp.clone(),
            ),
        }
    }
    // the JSON entry point on the same parts
    if needed <= 300_000 {
      for esc in [Esc::Minimal, Esc::AllULower] {
        if esc != Esc::Minimal && needed > 4_000 {
            continue;
        }
        let mut text = vec![];
        render_tags(parts, esc, &mut Gaps::new(&Ws::None), rng, &mut text);
        for n in buffer_lengths(needed, rng).into_iter().filter(|n| *n + 12 >= needed || *n < 8 || needed <= 600) {
            let mut g = Guarded::new(n, 0xCC, under_miri());
            let r = catch(|| Tags::from_json(&text, g.slice()).map(|(_, t)| diff_tags(parts, t)));
            rep.count("json_buffer_length_cases");
            match r {
                Ok(Ok(d)) => {
                    if n < needed {
                        rep.finding("partial-value:Tags::from_json", &format!("buffer {n} < needed {needed} yet Ok"), rp.clone());
                    } else if !fits {
                        rep.finding("oversize-accepted:Tags::from_json", &format!("needed {needed}; {}", d.first().cloned().unwrap_or_default()), rp.clone());
                    } else if !d.is_empty() {
                        rep.finding("unfaithful:Tags::from_json", &d.join("; "), rp.clone());
                    }
                }
                Ok(Err(e)) => {
                    if n >= needed && fits {
                        rep.finding("refused-with-sufficient-buffer:Tags::from_json", &format!("buffer {n} >= needed {needed}: {e}"), rp.clone());
                    }
                }
                Err(p) => rep.finding(
                    &format!("panic:Tags::from_json:{}@{}", panic_class(&p.message), p.location),
                    &format!("buffer {n}, needed {needed}: {}", p.message),
                    rp.clone(),
                ),
            }
        }
      }
    }
}

pub fn check_event(rep: &mut Report, rng: &mut Rng, e: &SemEvent, label: &str) {
    let fits = tags_representable(&e.tags) && e.content.len() <= u32::MAX as usize;
    let needed = e.binary_len();
    let rp = json!({"kind":"event","label":label,"tags_shape":shape_of_tags(&e.tags),"content_len":e.content.len()});
    rep.eval(fnv(format!("{label}{}{}", shape_of_tags(&e.tags), e.content.len()).as_bytes()), true);
    // from_parts needs a Tags value first; when tags are oversize that constructor is what must refuse
    let tags = match catch(|| OwnedTags::new(&e.tags)) {
        Ok(Ok(t)) => t,
        _ => {
            rep.count("event_cases_tags_refused");
            return;
        }
    };
    if !tags_representable(&e.tags) {
        // already reported by check_tags; an event built on truncated tags is not a new defect
        rep.count("event_cases_on_truncated_tags(skipped)");
        return;
    }
    match catch(|| Event::output_size_needed(tags.as_bytes().len(), e.content.len())) {
        Ok(n) if n == needed => {}
        Ok(n) => rep.finding("output_size_needed-wrong:event", &format!("{n} vs {needed}"), rp.clone()),
        Err(p) => rep.finding(&format!("panic:output_size_needed@{}", p.location), &p.message, rp.clone()),
    }
    let build = |buf: &mut [u8]| -> Result<Vec<String>, String> {
        Event::from_parts(
            Id::from_bytes(e.id), Kind::from_u16(e.kind), Pubkey::from_bytes(e.pubkey), Sig::from_bytes(e.sig),
            &tags, Time::from_u64(e.created_at), e.content.as_bytes(), buf,
        )
        .map(|ev| {
            let mut d = e.diff_pocket(ev);
            if ev.as_bytes().len() != needed {
                d.push(format!("the value is {} bytes long, {needed} were needed and written", ev.as_bytes().len()));
            }
            d
        })
        .map_err(|x| format!("{x}"))
    };
    for n in buffer_lengths(needed, rng) {
        let mut g = Guarded::new(n, 0xCC, under_miri());
        let r = catch(|| build(g.slice()));
        rep.count("buffer_length_cases");
        if !g.intact() {
            rep.finding("write-outside-buffer:Event::from_parts", "", rp.clone());
        }
        match r {
            Ok(Ok(d)) => {
                if n < needed {
                    rep.finding("partial-value:Event::from_parts", &format!("buffer {n} < needed {needed} yet Ok"), rp.clone());
                } else if !d.is_empty() {
                    rep.finding("unfaithful:Event::from_parts", &d.join("; "), rp.clone());
                }
            }
            Ok(Err(err)) => {
                if n >= needed && fits {
                    rep.finding("refused-with-sufficient-buffer:Event::from_parts", &format!("buffer {n} >= {needed}: {err}"), rp.clone());
                }
            }
            Err(p) => rep.finding(&format!("panic:Event::from_parts:{}@{}", panic_class(&p.message), p.location), &format!("buffer {n}, needed {needed}: {}", p.message), rp.clone()),
        }
    }
    match catch(|| e.to_owned().map(|o| e.diff_pocket(&o))) {
        Ok(Ok(d)) if d.is_empty() => {}
        Ok(Ok(d)) => rep.finding("unfaithful:OwnedEvent::new", &d.join("; "), rp.clone()),
        Ok(Err(err)) => rep.finding("refused-representable:OwnedEvent::new", &err, rp.clone()),
        Err(p) => rep.finding(&format!("panic:OwnedEvent::new:{}@{}", panic_class(&p.message), p.location), &p.message, rp.clone()),
    }
    // signing constructor
    if !under_miri() && needed < 400_000 {
        let kp = crate::c08::keypair(1);
        match catch(|| OwnedEvent::sign_new(&kp, Kind::from_u16(e.kind), &tags, Time::from_u64(e.created_at), e.content.as_bytes())) {
            Ok(Ok(se)) => {
                let mut want = e.clone();
                want.pubkey = crate::c08::xonly(&kp);
                want.id.copy_from_slice(se.id().as_slice());
                want.sig.copy_from_slice(se.sig().as_slice());
                let d = want.diff_pocket(&se);
                if !d.is_empty() {
                    rep.finding("unfaithful:OwnedEvent::sign_new", &d.join("; "), rp.clone());
                }
                rep.count("sign_new_cases");
            }
            Ok(Err(err)) => rep.finding("refused-representable:OwnedEvent::sign_new", &format!("{err}"), rp.clone()),
            Err(p) => rep.finding(&format!("panic:OwnedEvent::sign_new:{}@{}", panic_class(&p.message), p.location), &p.message, rp.clone()),
        }
    }
    // the JSON entry point: every buffer length around the required size
    // (plain spelling, and - for small events - every character spelled as a `\u` escape, whose decoder has its own
    // room checks per encoded length)
    for esc in [Esc::Minimal, Esc::AllULower] {
        if needed >= 400_000 || (esc != Esc::Minimal && needed > 4_000) {
            continue;
        }
        let mut r = EvRender::plain();
        r.esc = esc;
        let (text, _) = render_event(e, &r, rng);
        let mut lens = buffer_lengths(needed, rng);
        lens.retain(|n| *n + 24 >= needed || *n < 200 || needed <= 600);
        for n in lens {
            let mut g = Guarded::new(n, 0xCC, under_miri());
            let r = catch(|| Event::from_json(&text, g.slice()).map(|(_, ev)| e.diff_pocket(ev)).map_err(|x| format!("{x}")));
            rep.count("json_buffer_length_cases");
            match r {
                Ok(Ok(d)) => {
                    if n < needed {
                        rep.finding("partial-value:Event::from_json", &format!("buffer {n} < needed {needed} yet Ok"), rp.clone());
                    } else if !d.is_empty() {
                        rep.finding("unfaithful:Event::from_json", &d.join("; "), rp.clone());
                    }
                }
                Ok(Err(err)) => {
                    if n >= needed && fits {
                        rep.finding("refused-with-sufficient-buffer:Event::from_json", &format!("buffer {n} >= {needed}: {err}"), rp.clone());
                    }
                }
                Err(p) => rep.finding(&format!("panic:Event::from_json:{}@{}", panic_class(&p.message), p.location), &format!("buffer {n}, needed {needed}: {}", p.message), rp.clone()),
            }
        }
    }
}

pub fn check_filter(rep: &mut Report, rng: &mut Rng, f: &SemFilter, label: &str) {
    let tparts = f.tag_parts();
    let fits = tags_representable(&tparts) && f.ids.len() <= 65535 && f.authors.len() <= 65535 && f.kinds.len() <= 65535;
    let needed = 32 + 32 * f.ids.len() + 32 * f.authors.len() + 2 * f.kinds.len() + tags_len(&tparts);
    let rp = json!({"kind":"filter","label":label,"ids":f.ids.len(),"authors":f.authors.len(),"kinds":f.kinds.len(),"tags_shape":shape_of_tags(&tparts)});
    rep.eval(fnv(format!("{label}{rp}").as_bytes()), true);
    rep.count(if fits { "filter_cases_representable" } else { "filter_cases_oversize" });
    if !tags_representable(&tparts) {
        return; // the tags constructor is responsible (check_tags)
    }
    let tags = match catch(|| OwnedTags::new(&tparts)) {
        Ok(Ok(t)) => t,
        Ok(Err(_)) => return,
        Err(p) => {
            rep.finding(&format!("panic:OwnedTags::new:{}@{}", panic_class(&p.message), p.location), &p.message, rp.clone());
            return;
        }
    };
    let ids: Vec<Id> = f.ids.iter().map(|i| Id::from_bytes(*i)).collect();
    let authors: Vec<Pubkey> = f.authors.iter().map(|i| Pubkey::from_bytes(*i)).collect();
    let kinds: Vec<Kind> = f.kinds.iter().map(|k| Kind::from_u16(*k)).collect();
    match catch(|| Filter::output_size_needed(&ids, &authors, &kinds, &tags)) {
        Ok(n) if n == needed => {}
        Ok(n) => rep.finding("output_size_needed-wrong:filter", &format!("{n} vs {needed}"), rp.clone()),
        Err(p) => rep.finding(&format!("panic:output_size_needed@{}", p.location), &p.message, rp.clone()),
    }
    match catch(|| f.to_owned().map(|o| f.diff_pocket(&o))) {
        Ok(Ok(d)) => {
            if !fits {
                rep.finding("oversize-accepted:OwnedFilter::new", &format!("counts exceed 16 bits but accepted; {}", d.first().cloned().unwrap_or_default()), rp.clone());
            } else if !d.is_empty() {
                rep.finding("unfaithful:OwnedFilter::new", &d.join("; "), rp.clone());
            }
        }
        Ok(Err(e)) => {
            if fits {
                rep.finding("refused-representable:OwnedFilter::new", &e, rp.clone());
            } else {
                rep.count("oversize_refused");
            }
        }
        Err(p) => rep.finding(&format!("panic:OwnedFilter::new:{}@{}", panic_class(&p.message), p.location), &p.message, rp.clone()),
    }
    for n in buffer_lengths(needed, rng) {
        let mut g = Guarded::new(n, 0xCC, under_miri());
        let r = catch(|| {
            Filter::from_parts(&ids, &authors, &kinds, &tags, f.since.map(Time::from_u64), f.until.map(Time::from_u64), f.limit, g.slice())
                .map(|pf| {
                    let mut d = f.diff_pocket(pf);
                    if pf.as_bytes().len() != needed {
                        d.push(format!("the value is {} bytes long, {needed} were needed and written", pf.as_bytes().len()));
                    }
                    d
                })
                .map_err(|e| format!("{e}"))
        });
        rep.count("buffer_length_cases");
        if !g.intact() {
            rep.finding("write-outside-buffer:Filter::from_parts", "", rp.clone());
        }
        match r {
            Ok(Ok(d)) => {
                if n < needed {
                    rep.finding("partial-value:Filter::from_parts", &format!("buffer {n} < {needed} yet Ok"), rp.clone());
                } else if !fits {
                    rep.finding("oversize-accepted:Filter::from_parts", &d.first().cloned().unwrap_or_default(), rp.clone());
                } else if !d.is_empty() {
                    rep.finding("unfaithful:Filter::from_parts", &d.join("; "), rp.clone());
                }
            }
            Ok(Err(e)) => {
                if n >= needed && fits {
                    rep.finding("refused-with-sufficient-buffer:Filter::from_parts", &format!("buffer {n} >= {needed}: {e}"), rp.clone());
                }
            }
            Err(p) => rep.finding(&format!("panic:Filter::from_parts:{}@{}", panic_class(&p.message), p.location), &format!("buffer {n}, needed {needed}: {}", p.message), rp.clone()),
        }
    }
    // JSON entry point (single-letter, distinct constraint names only)
    let names_ok = f.tags.iter().all(|(n, _)| n.len() == 1 && n.as_bytes()[0].is_ascii_alphabetic())
        && { let mut ns: Vec<&String> = f.tags.iter().map(|(n, _)| n).collect(); ns.sort(); ns.dedup(); ns.len() == f.tags.len() };
    if names_ok && needed < 3_000_000 {
        let (text, _) = render_filter(f, &FilterRender::plain(f), rng);
        let mut lens = buffer_lengths(needed, rng);
        lens.retain(|n| *n + 24 >= needed || *n < 80 || needed <= 600);
        for n in lens {
            let mut g = Guarded::new(n, 0xCC, under_miri());
            let r = catch(|| Filter::from_json(&text, g.slice()).map(|(_, _, pf)| f.diff_pocket(pf)).map_err(|e| format!("{e}")));
            rep.count("json_buffer_length_cases");
            match r {
                Ok(Ok(d)) => {
                    if n < needed {
                        rep.finding("partial-value:Filter::from_json", &format!("buffer {n} < {needed} yet Ok"), rp.clone());
                    } else if !fits {
                        rep.finding("oversize-accepted:Filter::from_json", &d.first().cloned().unwrap_or_default(), rp.clone());
                    } else if !d.is_empty() {
                        rep.finding("unfaithful:Filter::from_json", &d.join("; "), rp.clone());
                    }
                }
                Ok(Err(e)) => {
                    if n >= needed && fits {
                        // C07 decides acceptance of filter texts; only note it here
                        rep.count("json_filter_refused_with_sufficient_buffer(C07 territory)");
                        let _ = e;
                    }
                }
                Err(p) => rep.finding(&format!("panic:Filter::from_json:{}@{}", panic_class(&p.message), p.location), &format!("buffer {n}, needed {needed}: {}", p.message), rp.clone()),
            }
        }
    }
}

/// The JSON constructors and the integer parts: a number in the text is either reproduced exactly by the accessor or
/// the text is refused (limit may saturate at u32::MAX, as the filter property allows) - never a wrapped or truncated
/// value. Numbers: everything within 12 of 2^k (k = 8..66), around 10^19..10^21, and 20-24-digit values with every
/// pair of leading digits.
fn check_json_integers(rep: &mut Report) {
    let mut numbers: Vec<String> = vec!["0".into(), "1".into(), "1681778790".into()];
    for bits in [8u32, 16, 31, 32, 63, 64, 65, 66] {
        let base: u128 = 1u128 << bits;
        for d in 0..=12u128 {
            numbers.push(format!("{}", base + d));
            numbers.push(format!("{}", base - d));
        }
    }
    for p10 in [19u32, 20, 21] {
        let base: u128 = 10u128.pow(p10);
        for d in 0..=3u128 {
            numbers.push(format!("{}", base + d));
            numbers.push(format!("{}", base - d));
        }
    }
    let mut r2 = Rng::new(0x1A7E);
    for lead in 18u32..=99 {
        let tail: String = (0..18).map(|_| (b'0' + r2.below(10) as u8) as char).collect();
        numbers.push(format!("{lead}{tail}"));
    }
    for digits in 21usize..=24 {
        for lead in 1u32..=9 {
            let tail: String = (0..digits - 1).map(|_| (b'0' + r2.below(10) as u8) as char).collect();
            numbers.push(format!("{lead}{tail}"));
        }
    }
    let (_, e2) = crate::c01::base_events();
    let mut rng = Rng::new(7);
    for num in numbers.iter() {
        let v: u128 = num.parse().unwrap();
        rep.eval(fnv(num.as_bytes()), true);
        rep.count("json_integer_cases");
        // event: created_at and kind
        for (member, maxv) in [("created_at", u64::MAX as u128), ("kind", 65535u128)] {
            let mut r = EvRender::plain();
            if member == "kind" {
                r.kind_text = Some(num.clone());
            } else {
                r.created_text = Some(num.clone());
            }
            let text = render_event(&e2, &r, &mut rng).0;
            let mut buf = vec![0xCCu8; text.len() * 2 + 1024];
            let rp = json!({"kind":"json-integer","entry":"Event::from_json","member":member,"number":num});
            match catch(|| Event::from_json(&text, &mut buf).map(|(_, e)| if member == "kind" { e.kind().as_u16() as u128 } else { e.created_at().as_u64() as u128 }).map_err(|e| format!("{e}"))) {
                Ok(Ok(got)) => {
                    if v > maxv || got != v {
                        rep.finding(&format!("integer-not-faithful:Event::from_json:{member}"), &format!("{member}={num} accepted and read as {got}"), rp);
                    }
                }
                Ok(Err(_)) => {
                    if v <= maxv {
                        rep.finding(&format!("refused-representable:Event::from_json:{member}"), &format!("{member}={num} refused"), rp);
                    }
                }
                Err(p) => rep.finding(&format!("panic:Event::from_json:{}@{}", panic_class(&p.message), p.location), &format!("{member}={num}: {}", p.message), rp),
            }
        }
        // filter: since, until, limit, a kinds element
        for (member, maxv) in [("since", u64::MAX as u128), ("until", u64::MAX as u128), ("limit", u32::MAX as u128), ("kinds", 65535u128)] {
            let text = if member == "kinds" { format!("{{\"kinds\":[7,{num}]}}") } else { format!("{{\"{member}\":{num}}}") }.into_bytes();
            let mut buf = vec![0xCCu8; 4096];
            let rp = json!({"kind":"json-integer","entry":"Filter::from_json","member":member,"number":num});
            match catch(|| {
                Filter::from_json(&text, &mut buf)
                    .map(|(_, _, f)| match member {
                        "since" => f.since().as_u64() as u128,
                        "until" => f.until().as_u64() as u128,
                        "limit" => f.limit() as u128,
                        _ => f.kinds().nth(1).map(|k| k.as_u16() as u128).unwrap_or(u128::MAX),
                    })
                    .map_err(|e| format!("{e}"))
            }) {
                Ok(Ok(got)) => {
                    let saturated = member == "limit" && v > maxv && got == maxv;
                    if !saturated && (v > maxv || got != v) {
                        rep.finding(&format!("integer-not-faithful:Filter::from_json:{member}"), &format!("{member}={num} accepted and read as {got}"), rp);
                    }
                }
                Ok(Err(_)) => {
                    if v <= maxv {
                        rep.finding(&format!("refused-representable:Filter::from_json:{member}"), &format!("{member}={num} refused"), rp);
                    }
                }
                Err(p) => rep.finding(&format!("panic:Filter::from_json:{}@{}", panic_class(&p.message), p.location), &format!("{member}={num}: {}", p.message), rp),
            }
        }
    }
}

pub fn run(args: &Args) -> Report {
    let mut rep = Report::new("C19", &args.leg(), &args.tier(), args.seed());
    if args.get("sample").is_none() {
        check_json_integers(&mut rep);
    }
    let mut rng = Rng::new(args.seed() ^ 0xC19);
    let thorough = args.thorough();
    let sample = args.get("sample").map(|_| args.get_u64("sample", 0));
    let (_, e2) = crate::c01::base_events();

    if sample.is_none() {
        // sizes straddling every 16-bit field of the tags format
        for target in [65534usize, 65535, 65536, 65537, 70000, 131071, 131072] {
            // one long string
            let parts = vec![vec!["x".repeat(target - 10)]];
            check_tags(&mut rep, &mut rng, &parts, "one-long-string");
            // the smallest values: no tags at all, one empty tag
            check_tags(&mut rep, &mut rng, &[], "no-tags");
            check_tags(&mut rep, &mut rng, &[vec![]], "one-empty-tag");
            // many short tags ["a"] (7 bytes each)
            let n = (target - 4) / 7;
            let mut parts: Vec<Vec<String>> = (0..n).map(|_| vec!["a".to_string()]).collect();
            let rest = target - tags_len(&parts);
            let l = parts.len();
            parts[l - 1][0] = "a".repeat(1 + rest);
            check_tags(&mut rep, &mut rng, &parts, "many-short-tags");
        }
        for slen in [65534usize, 65535, 65536] {
            check_tags(&mut rep, &mut rng, &[vec!["k".into(), "v".repeat(slen)]], "single-string-length");
        }
        for ntags in [16383usize, 16384, 32767, 32768, 65535, 65536, 70000] {
            let parts: Vec<Vec<String>> = (0..ntags).map(|_| vec![]).collect();
            check_tags(&mut rep, &mut rng, &parts, "many-empty-tags");
        }
        for nstr in [21844usize, 21845, 32767, 65535, 65536, 70000] {
            let parts = vec![(0..nstr).map(|_| String::new()).collect::<Vec<_>>()];
            check_tags(&mut rep, &mut rng, &parts, "many-strings-in-one-tag");
        }
        rep.sample(json!({"family":"tags-16-bit-boundaries","targets":[65534,65535,65536,65537,70000,131071,131072]}));
        // events: content sizes, with small and large tag sections
        for clen in [0usize, 1, 7, 8, 9, 255, 256, 65535, 65536, 100_000] {
            let mut e = e2.clone();
            e.content = "c".repeat(clen);
            check_event(&mut rep, &mut rng, &e, "content-size");
            let mut e = crate::c01::base_events().0;
            e.content = "\u{e9}".repeat(clen / 2);
            check_event(&mut rep, &mut rng, &e, "content-size+tags");
        }
        // strings that END in a 1-, 2-, 3- and 4-byte character, in the content and in the last tag string (the last
        // thing written before the buffer ends)
        for ch in ["a", "\u{e9}", "\u{20ac}", "\u{ffff}", "\u{1f600}"] {
            for lead in ["", "x", "xy"] {
                let mut e = e2.clone();
                e.content = format!("{lead}{ch}");
                e.tags = vec![];
                check_event(&mut rep, &mut rng, &e, "last-character");
                let mut e = e2.clone();
                e.content = String::new();
                e.tags = vec![vec!["t".into(), format!("{lead}{ch}")]];
                check_event(&mut rep, &mut rng, &e, "last-character");
                check_tags(&mut rep, &mut rng, &[vec![format!("{lead}{ch}")]], "last-character");
            }
        }
        for tlen in [65000usize, 65535] {
            let mut e = e2.clone();
            e.tags = vec![vec!["x".repeat(tlen - 10)]];
            e.content = "tail".into();
            check_event(&mut rep, &mut rng, &e, "max-tags");
        }
        // filters: counts on both sides of 65,535
        let counts: &[usize] = if thorough { &[0, 1, 1000, 65535, 65536, 70000] } else { &[0, 1, 65535, 65536] };
        for &c in counts {
            let mut f = SemFilter::empty();
            f.ids = (0..c).map(|i| { let mut a = [0u8; 32]; a[..8].copy_from_slice(&(i as u64).to_le_bytes()); a }).collect();
            check_filter(&mut rep, &mut rng, &f, "ids-count");
            let mut f = SemFilter::empty();
            f.authors = (0..c).map(|i| { let mut a = [1u8; 32]; a[..8].copy_from_slice(&(i as u64).to_le_bytes()); a }).collect();
            f.limit = Some(5);
            check_filter(&mut rep, &mut rng, &f, "authors-count");
            let mut f = SemFilter::empty();
            f.kinds = (0..c).map(|i| (i % 65536) as u16).collect();
            f.since = Some(3);
            check_filter(&mut rep, &mut rng, &f, "kinds-count");
        }
        for vlen in [65000usize, 65535, 65536] {
            let mut f = SemFilter::empty();
            f.tags = vec![("e".into(), vec!["v".repeat(vlen)])];
            check_filter(&mut rep, &mut rng, &f, "long-tag-value");
            check_tags(&mut rep, &mut rng, &f.tag_parts(), "filter-tags");
        }
    }

    // random small and medium shapes with complete buffer-length sweeps
    let n = sample.unwrap_or(if thorough { 30_000 } else { 700 });
    for k in 0..n {
        let e = rand_event(&mut rng);
        check_tags(&mut rep, &mut rng, &e.tags, "random");
        check_event(&mut rep, &mut rng, &e, "random");
        let f = crate::c07::rand_filter(&mut rng, 4);
        check_filter(&mut rep, &mut rng, &f, "random");
        if k < 2 {
            rep.sample(json!({"family":"random","tags_shape":shape_of_tags(&e.tags),"content_len":e.content.len(),"buffer_lengths":"0..=needed+8"}));
        }
    }
    rep
}

pub fn replay(v: &serde_json::Value, rep: &mut Report) {
    let mut rng = Rng::new(5);
    if v["kind"] == "tags" {
        if let Ok(parts) = serde_json::from_value::<Vec<Vec<String>>>(v["parts"].clone()) {
            check_tags(rep, &mut rng, &parts, "replay");
            return;
        }
    }
    rep.notes.push("generated large case: re-run the check (deterministic families do not depend on the seed)".into());
}
