//! C06 — The filter/event match predicate equals NIP-01 semantics.
use crate::sem::*;
use crate::util::*;
use pocket_types::{Event, Filter};
use serde_json::json;

const TAG_NAMES: [&str; 12] = ["e", "p", "t", "d", "a", "E", "ab", "", "ee", "expiration", "P", "tt"];

fn value_pool(rng: &mut Rng) -> String {
    // incl. 64-digit hex values spelled in lower, upper and mixed case (equal only byte for byte), a 63- and a
    // 65-digit neighbour, and values that differ only in case or in a trailing byte
    let pool: [&str; 24] = [
        "", "a", "ab", "abc", "b", "a\u{0}", "a ", "A", "\u{e9}", "x",
        "0000000000000000000000000000000000000000000000000000000000000001",
        "0000000000000000000000000000000000000000000000000000000000000002", "ab\u{0}\u{0}", "aa",
        "a966a0c7a966a0c7a966a0c7a966a0c7a966a0c7a966a0c7a966a0c7a966a0c7",
        "A966A0C7A966A0C7A966A0C7A966A0C7A966A0C7A966A0C7A966A0C7A966A0C7",
        "a966a0c7a966a0c7a966a0c7a966a0c7A966A0C7a966a0c7a966a0c7a966a0c7",
        "a966a0c7a966a0c7a966a0c7a966a0c7a966a0c7a966a0c7a966a0c7a966a0c",
        "a966a0c7a966a0c7a966a0c7a966a0c7a966a0c7a966a0c7a966a0c7a966a0c70",
        "nostr", "Nostr", "NOSTR", "wss://r.example/", "wss://r.example",
    ];
    if rng.chance(1, 12) {
        let base = "L".repeat(182);
        return format!("{}{}", base, rng.pick(&["", "x", "y", "xx"]));
    }
    rng.pick(&pool).to_string()
}

fn pool_id(rng: &mut Rng, salt: u8) -> [u8; 32] {
    let mut a = [salt; 32];
    a[0] = rng.below(5) as u8;
    a[31] = a[0].wrapping_mul(3);
    a
}

const TIMES: [u64; 12] = [0, 1, 2, 99, 100, 101, 65535, 65536, (1 << 32) - 1, 1 << 32, u64::MAX - 1, u64::MAX];
const KINDS: [u16; 8] = [0, 1, 3, 5, 255, 256, 30000, 65535];

pub fn gen_event(rng: &mut Rng) -> SemEvent {
    let ntags = match rng.below(6) {
        0 => 0,
        1 => 1,
        _ => 1 + rng.usize_below(5),
    };
    let mut tags = vec![];
    for _ in 0..ntags {
        let nstr = match rng.below(8) {
            0 => 0,
            1 => 1,
            _ => 2 + rng.usize_below(3),
        };
        let mut t = vec![];
        for j in 0..nstr {
            if j == 0 {
                t.push(rng.pick(&TAG_NAMES).to_string());
            } else {
                t.push(value_pool(rng));
            }
        }
        tags.push(t);
    }
    SemEvent {
        id: pool_id(rng, 0x11),
        pubkey: pool_id(rng, 0x22),
        sig: [7u8; 64],
        kind: *rng.pick(&KINDS),
        created_at: *rng.pick(&TIMES),
        tags,
        content: String::new(),
    }
}

fn list_with<T: Clone + PartialEq>(rng: &mut Rng, own: &T, others: &mut dyn FnMut(&mut Rng) -> T) -> Vec<T> {
    // absent / contains own value at first, last, only position / does not contain it
    match rng.below(7) {
        0 | 1 => vec![],
        2 => vec![own.clone()],
        3 => {
            let mut v = vec![own.clone()];
            for _ in 0..1 + rng.usize_below(3) {
                v.push(others(rng));
            }
            v
        }
        4 => {
            let mut v = vec![];
            for _ in 0..1 + rng.usize_below(3) {
                v.push(others(rng));
            }
            v.push(own.clone());
            v
        }
        5 => {
            // many values, own in the middle
            let mut v = vec![];
            for _ in 0..rng.usize_below(6) {
                v.push(others(rng));
            }
            v.push(own.clone());
            for _ in 0..rng.usize_below(6) {
                v.push(others(rng));
            }
            v
        }
        _ => {
            let mut v = vec![];
            for _ in 0..1 + rng.usize_below(3) {
                let o = others(rng);
                if o != *own {
                    v.push(o);
                }
            }
            v
        }
    }
}

pub fn gen_filter_for(rng: &mut Rng, e: &SemEvent) -> SemFilter {
    let ids = list_with(rng, &e.id, &mut |r| pool_id(r, 0x11));
    let authors = list_with(rng, &e.pubkey, &mut |r| pool_id(r, 0x22));
    let kinds = list_with(rng, &e.kind, &mut |r| *r.pick(&KINDS));
    let near = |rng: &mut Rng, t: u64| -> Option<u64> {
        match rng.below(8) {
            0 | 1 => None,
            2 => Some(t),
            3 => Some(t.wrapping_sub(1)),
            4 => Some(t.wrapping_add(1)),
            5 => Some(0),
            6 => Some(u64::MAX),
            _ => Some(*rng.pick(&TIMES)),
        }
    };
    let since = near(rng, e.created_at);
    let until = near(rng, e.created_at);
    let mut tags: Vec<(String, Vec<String>)> = vec![];
    let ncons = match rng.below(6) {
        0 | 1 | 2 => 0,
        3 => 1,
        4 => 2,
        _ => 3,
    };
    for _ in 0..ncons {
        // base the constraint on one of the event's tags when possible
        let from_event = !e.tags.is_empty() && rng.chance(3, 4);
        let (name, ev_first, ev_other): (String, Option<String>, Option<String>) = if from_event {
            let t = rng.pick(&e.tags);
            if t.is_empty() {
                (rng.pick(&TAG_NAMES).to_string(), None, None)
            } else {
                (t[0].clone(), t.get(1).cloned(), t.get(2).cloned())
            }
        } else {
            (rng.pick(&TAG_NAMES).to_string(), None, None)
        };
        if tags.iter().any(|(n, _)| *n == name) && rng.chance(3, 4) {
            continue; // mostly distinct names, sometimes repeated
        }
        let mut values = vec![];
        match rng.below(8) {
            0 => {} // zero values: can never be satisfied
            1 | 2 => {
                if let Some(v) = &ev_first {
                    values.push(v.clone());
                } else {
                    values.push(value_pool(rng));
                }
            }
            3 => {
                // several values, the event's first value last
                for _ in 0..1 + rng.usize_below(3) {
                    values.push(value_pool(rng));
                }
                if let Some(v) = &ev_first {
                    values.push(v.clone());
                }
            }
            4 => {
                // only the event's NON-first value: must not count
                if let Some(v) = &ev_other {
                    values.push(v.clone());
                } else {
                    values.push(value_pool(rng));
                }
            }
            5 => {
                // prefix / extension of the event's value
                if let Some(v) = &ev_first {
                    let mut x = v.clone();
                    if rng.chance(1, 2) && !x.is_empty() {
                        let _ = x.pop();
                    } else {
                        x.push(*rng.pick(&['a', '\u{0}', ' ']));
                    }
                    values.push(x);
                } else {
                    values.push(value_pool(rng));
                }
            }
            _ => {
                for _ in 0..1 + rng.usize_below(4) {
                    values.push(value_pool(rng));
                }
            }
        }
        tags.push((name, values));
    }
    SemFilter { ids, authors, kinds, tags, since, until, limit: if rng.chance(1, 4) { Some(rng.below(5) as u32) } else { None } }
}

fn replay_of(f: &SemFilter, e: &SemEvent) -> serde_json::Value {
    json!({"kind":"pair",
        "filter":{"ids":f.ids.iter().map(|x| hex(x)).collect::<Vec<_>>(),"authors":f.authors.iter().map(|x| hex(x)).collect::<Vec<_>>(),
                  "kinds":f.kinds,"tags":f.tags,"since":f.since,"until":f.until,"limit":f.limit},
        "event":{"id":hex(&e.id),"pubkey":hex(&e.pubkey),"kind":e.kind,"created_at":e.created_at,"tags":e.tags}})
}

fn from_replay(v: &serde_json::Value) -> Option<(SemFilter, SemEvent)> {
    let h32 = |x: &serde_json::Value| -> Option<[u8; 32]> {
        let b = unhex(x.as_str()?)?;
        let mut a = [0u8; 32];
        if b.len() != 32 {
            return None;
        }
        a.copy_from_slice(&b);
        Some(a)
    };
    let fv = &v["filter"];
    let ev = &v["event"];
    let f = SemFilter {
        ids: fv["ids"].as_array()?.iter().filter_map(h32).collect(),
        authors: fv["authors"].as_array()?.iter().filter_map(h32).collect(),
        kinds: serde_json::from_value(fv["kinds"].clone()).ok()?,
        tags: serde_json::from_value(fv["tags"].clone()).ok()?,
        since: fv["since"].as_u64(),
        until: fv["until"].as_u64(),
        limit: fv["limit"].as_u64().map(|x| x as u32),
    };
    let e = SemEvent {
        id: h32(&ev["id"])?,
        pubkey: h32(&ev["pubkey"])?,
        sig: [7u8; 64],
        kind: ev["kind"].as_u64()? as u16,
        created_at: ev["created_at"].as_u64()?,
        tags: serde_json::from_value(ev["tags"].clone()).ok()?,
        content: String::new(),
    };
    Some((f, e))
}

pub fn check_pair(rep: &mut Report, f: &SemFilter, e: &SemEvent, via_json: bool, rng: &mut Rng) {
    let want = f.matches(e);
    let (of, oe) = match (f.to_owned(), e.to_owned()) {
        (Ok(a), Ok(b)) => (a, b),
        _ => {
            rep.count("constructor_refused");
            return;
        }
    };
    let mut h = vec![];
    h.extend_from_slice(of.as_bytes());
    h.extend_from_slice(oe.as_bytes());
    rep.eval(fnv(&h), !(f.ids.is_empty() && f.authors.is_empty() && f.kinds.is_empty() && f.tags.is_empty() && f.since.is_none() && f.until.is_none()));
    rep.count(if want { "expected_match" } else { "expected_non_match" });
    // which clauses decide
    if !f.ids.is_empty() {
        rep.count(if f.ids.contains(&e.id) { "ids_clause_pass" } else { "ids_clause_fail" });
    }
    if !f.authors.is_empty() {
        rep.count(if f.authors.contains(&e.pubkey) { "authors_clause_pass" } else { "authors_clause_fail" });
    }
    if !f.kinds.is_empty() {
        rep.count(if f.kinds.contains(&e.kind) { "kinds_clause_pass" } else { "kinds_clause_fail" });
    }
    if f.since.is_some() {
        rep.count(if e.created_at >= f.eff_since() { "since_clause_pass" } else { "since_clause_fail" });
        if e.created_at == f.eff_since() {
            rep.count("since_boundary_equal");
        }
    }
    if f.until.is_some() {
        rep.count(if e.created_at <= f.eff_until() { "until_clause_pass" } else { "until_clause_fail" });
        if e.created_at == f.eff_until() {
            rep.count("until_boundary_equal");
        }
    }
    if f.since.is_some() && f.until.is_some() && f.eff_since() > f.eff_until() {
        rep.count("inverted_window");
    }
    if !f.tags.is_empty() {
        let sub = SemFilter { tags: f.tags.clone(), ..SemFilter::empty() };
        rep.count(if sub.matches(e) { "tags_clause_pass" } else { "tags_clause_fail" });
    }
    let judge = |rep: &mut Report, got: Result<Result<bool, String>, PanicInfo>, path: &str| match got {
        Ok(Ok(b)) => {
            if b != want {
                let clause = classify(f, e);
                rep.finding(
                    &format!("predicate-differs:{}:{}", if want { "false-negative" } else { "false-positive" }, clause),
                    &format!("{path}: event_matches = {b}, NIP-01 reference = {want}; filter {} ; event kind {} created_at {} tags {:?}",
                        f.describe(), e.kind, e.created_at, e.tags),
                    replay_of(f, e),
                );
            }
        }
        Ok(Err(err)) => rep.finding("predicate-error-on-well-formed-operands", &format!("{path}: {err}"), replay_of(f, e)),
        Err(p) => rep.finding(
            &format!("predicate-panic:{}@{}", panic_class(&p.message), p.location),
            &format!("{path}: {}", p.message),
            replay_of(f, e),
        ),
    };
    let got = catch(|| of.event_matches(&oe).map_err(|e| format!("{e}")));
    judge(rep, got, "from_parts");
    if via_json {
        // the same operands through the JSON parsers (skipped when a parser refuses: C01/C07 territory)
        let single_letters = f.tags.iter().all(|(n, _)| n.len() == 1 && n.as_bytes()[0].is_ascii_alphabetic());
        let mut names: Vec<&String> = f.tags.iter().map(|(n, _)| n).collect();
        names.sort();
        names.dedup();
        if single_letters && names.len() == f.tags.len() {
            let (ft, _) = render_filter(f, &FilterRender::plain(f), rng);
            let (et, _) = render_event(e, &EvRender::plain(), rng);
            let mut fb = vec![0u8; 8192 + ft.len() * 2];
            let mut eb = vec![0u8; 8192 + et.len() * 2];
            let got = catch(|| -> Option<Result<bool, String>> {
                let (_, _, pf) = Filter::from_json(&ft, &mut fb).ok()?;
                let (_, pe) = Event::from_json(&et, &mut eb).ok()?;
                Some(pf.event_matches(pe).map_err(|e| format!("{e}")))
            });
            match got {
                Ok(Some(r)) => {
                    rep.count("pairs_via_json");
                    judge(rep, Ok(r), "from_json");
                }
                Ok(None) => rep.count("json_parser_refused(C01/C07 territory)"),
                Err(_) => rep.count("json_parser_panicked(C03 territory)"),
            }
        }
    }
}

/// which single clause explains the reference verdict (for signatures)
fn classify(f: &SemFilter, e: &SemEvent) -> &'static str {
    if !f.ids.is_empty() && !f.ids.contains(&e.id) {
        return "ids";
    }
    if !f.authors.is_empty() && !f.authors.contains(&e.pubkey) {
        return "authors";
    }
    if !f.kinds.is_empty() && !f.kinds.contains(&e.kind) {
        return "kinds";
    }
    if e.created_at < f.eff_since() || e.created_at > f.eff_until() {
        return "time";
    }
    if !f.tags.is_empty() {
        return "tags";
    }
    "all-clauses-pass"
}

pub fn run(args: &Args) -> Report {
    let mut rep = Report::new("C06", &args.leg(), &args.tier(), args.seed());
    let mut rng = Rng::new(args.seed() ^ 0xC06);
    let n = if args.thorough() { 6_000_000 } else { 600_000 };
    // deterministic boundary grid for the time clause
    let mut e = gen_event(&mut rng);
    e.tags.clear();
    for &t in TIMES.iter() {
        for &s in TIMES.iter() {
            for &u in TIMES.iter() {
                let mut ev = e.clone();
                ev.created_at = t;
                for (since, until) in [(Some(s), Some(u)), (Some(s), None), (None, Some(u))] {
                    let f = SemFilter { since, until, ..SemFilter::empty() };
                    check_pair(&mut rep, &f, &ev, false, &mut rng);
                }
            }
        }
    }
    // deterministic membership grid: lists of 1..6 ids / authors / kinds; the event's field is each listed element
    // (first, last, only), an unlisted value, a value sharing a 31-byte prefix / suffix with a listed one, and every
    // 32-byte run that straddles two neighbouring list elements (what an unaligned scan over the packed list would
    // see); for kinds the 2-byte runs straddling neighbours and the byte-swapped values
    {
        let base = gen_event(&mut rng);
        for len in 1..=6usize {
            let list: Vec<[u8; 32]> = (0..len).map(|i| { let mut a = [0u8; 32]; for (j, b) in a.iter_mut().enumerate() { *b = (0x10 * (i as u8 + 1)).wrapping_add(j as u8 / 8); } a }).collect();
            let mut probes: Vec<[u8; 32]> = list.clone();
            probes.push([0xEE; 32]);
            for a in list.iter() {
                let mut p = *a;
                p[31] ^= 1;
                probes.push(p);
                let mut p = *a;
                p[0] ^= 0x80;
                probes.push(p);
            }
            let packed: Vec<u8> = list.iter().flat_map(|a| a.iter().cloned()).collect();
            for off in 0..packed.len().saturating_sub(31) {
                if off % 32 != 0 {
                    let mut p = [0u8; 32];
                    p.copy_from_slice(&packed[off..off + 32]);
                    probes.push(p);
                }
            }
            for p in probes.iter() {
                let mut ev = base.clone();
                ev.pubkey = *p;
                check_pair(&mut rep, &SemFilter { authors: list.clone(), ..SemFilter::empty() }, &ev, false, &mut rng);
                let mut ev = base.clone();
                ev.id = *p;
                check_pair(&mut rep, &SemFilter { ids: list.clone(), ..SemFilter::empty() }, &ev, false, &mut rng);
                rep.count("membership_grid_cases");
            }
            let kinds: Vec<u16> = (0..len).map(|i| 0x1122u16.wrapping_add(0x2211 * i as u16)).collect();
            let mut kprobes: Vec<u16> = kinds.clone();
            kprobes.push(0xEEEE);
            for k in kinds.iter() {
                kprobes.push(k.swap_bytes());
                kprobes.push(k ^ 1);
                kprobes.push(k ^ 0x8000);
            }
            for w in kinds.windows(2) {
                for (a, b) in [(w[0], w[1])] {
                    kprobes.push((a << 8) | (b >> 8));
                    kprobes.push((a >> 8) | (b << 8));
                    kprobes.push(((a & 0xff) << 8) | (b & 0xff));
                    kprobes.push((a & 0xff00) | (b >> 8));
                }
            }
            for k in kprobes {
                let mut ev = base.clone();
                ev.kind = k;
                check_pair(&mut rep, &SemFilter { kinds: kinds.clone(), ..SemFilter::empty() }, &ev, false, &mut rng);
                rep.count("membership_grid_cases");
            }
        }
    }
    for k in 0..n {
        let e = gen_event(&mut rng);
        let f = gen_filter_for(&mut rng, &e);
        check_pair(&mut rep, &f, &e, k % 16 == 0, &mut rng);
        if k < 3 {
            rep.sample(json!({"filter":f.describe(),"event":{"kind":e.kind,"created_at":e.created_at,"tags":e.tags},"reference_verdict":f.matches(&e)}));
        }
    }
    rep
}

pub fn replay(v: &serde_json::Value, rep: &mut Report) {
    if let Some((f, e)) = from_replay(v) {
        let mut rng = Rng::new(1);
        check_pair(rep, &f, &e, true, &mut rng);
    }
}
