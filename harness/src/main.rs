//! pvmon — runtime monitors for mikedilger/pocket (see /verif/DESIGN.md)
mod util;

mod c20;

use util::*;

fn main() {
    let args = Args::parse();
    install_panic_hook();
    let rep: Report = match args.cmd.as_str() {
        "c20" => c20::run(&args),
        "replay" => {
            let path = args.pos.first().cloned().unwrap_or_default();
            let txt = std::fs::read_to_string(&path).expect("read replay file");
            let v: serde_json::Value = serde_json::from_str(&txt).expect("replay json");
            let prop = v["property"].as_str().unwrap_or("").to_string();
            let mut rep = Report::new(&prop, &args.leg(), "replay", 0);
            let payload = &v["replay"];
            match prop.as_str() {
                "C20" => c20::replay(payload, &mut rep),
                _ => rep.notes.push(format!("no replay handler for {prop}")),
            }
            rep
        }
        other => {
            eprintln!("unknown command {other:?}");
            std::process::exit(2);
        }
    };
    rep.write(&args.out());
    let nf = rep.findings.len();
    eprintln!(
        "[pvmon {} leg={} tier={} seed={}] evaluations={} distinct_nontrivial={} findings={}",
        rep.prop,
        rep.leg,
        rep.tier,
        rep.seed,
        rep.evaluations,
        rep.distinct.len(),
        nf
    );
    for f in rep.findings.iter() {
        eprintln!("  finding {}/{} x{}: {}", f.prop, f.signature, f.count, f.detail);
    }
}
