//! pvmon — runtime monitors for mikedilger/pocket (see /verif/DESIGN.md)
mod util;
mod sem;
mod jsonref;
mod sha256;

mod c01;
mod c02;
mod c03;
mod c06;
mod c07;
mod c08;
mod c19;
mod c20;

#[cfg(feature = "db")]
mod conc;
#[cfg(feature = "db")]
mod crash;
#[cfg(feature = "db")]
mod dbchecks;
#[cfg(feature = "db")]
mod dbgen;
#[cfg(feature = "db")]
mod dbh;
#[cfg(feature = "db")]
mod model;
#[cfg(feature = "db")]
mod refs;

use util::*;

/// Safety net for the properties with an explicit "never panics" clause: a panic raised inside the library that
/// escapes every monitored call of the check (the harness called a constructor it took for granted) is still a panic of
/// the library on some input, and is reported as such instead of taking the report down with the process.
fn guarded(prop: &str, args: &Args, f: impl FnOnce() -> Report) -> Report {
    let quiet_hook = std::panic::catch_unwind(std::panic::AssertUnwindSafe(f));
    match quiet_hook {
        Ok(r) => r,
        Err(payload) => {
            let info = util::last_panic();
            match info {
                Some(p) if p.location.starts_with("pocket-types/") || p.location.starts_with("pocket-db/") => {
                    let mut rep = Report::new(prop, &args.leg(), &args.tier(), args.seed());
                    rep.eval(util::fnv(p.location.as_bytes()), true);
                    rep.finding(
                        &format!("panic-in-library-outside-a-monitored-call:{}@{}", util::panic_class(&p.message), p.location),
                        &format!("{} (the run stopped here; the other monitors of this leg did not report)", p.message),
                        serde_json::json!({"kind":"uncaught","location":p.location}),
                    );
                    rep
                }
                _ => std::panic::resume_unwind(payload),
            }
        }
    }
}

fn main() {
    let args = Args::parse();
    install_panic_hook();
    let rep: Report = match args.cmd.as_str() {
        "c01" => c01::run(&args),
        "c02" => c02::run(&args),
        "c03" => guarded("C03", &args, || c03::run(&args)),
        "c03-child" => {
            c03::child(&args);
            return;
        }
        "c06" => c06::run(&args),
        "c07" => c07::run(&args),
        "c08" => c08::run(&args),
        "c19" => guarded("C19", &args, || c19::run(&args)),
        "c20" => guarded("C20", &args, || c20::run(&args)),
        "noop" => Report::new("noop", "", "", 0),
        #[cfg(feature = "db")]
        "c15" => refs::run(&args),
        #[cfg(feature = "db")]
        "c14" => conc::run(&args),
        #[cfg(feature = "db")]
        "c10conc" => conc::run_c10(&args),
        #[cfg(feature = "db")]
        "c11conc" => conc::run_c11(&args),
        #[cfg(feature = "db")]
        "lmdb-probe" => {
            conc::lmdb_probe(&args);
            return;
        }
        #[cfg(feature = "db")]
        "c14-growth-child" => {
            conc::growth_child(&args);
            return;
        }
        #[cfg(feature = "db")]
        "c13" => crash::run(&args),
        #[cfg(feature = "db")]
        "c13-child" => {
            crash::child(&args);
            return;
        }
        #[cfg(feature = "db")]
        "c04" => dbchecks::c04(&args),
        #[cfg(feature = "db")]
        "c05" => dbchecks::c05(&args),
        #[cfg(feature = "db")]
        "c09" => dbchecks::c09(&args),
        #[cfg(feature = "db")]
        "c10" => dbchecks::c10(&args),
        #[cfg(feature = "db")]
        "c11" => dbchecks::c11(&args),
        #[cfg(feature = "db")]
        "c12" => dbchecks::c12(&args),
        #[cfg(feature = "db")]
        "c16" => dbchecks::c16(&args),
        #[cfg(feature = "db")]
        "c17" => dbchecks::c17(&args),
        #[cfg(feature = "db")]
        "c18" => dbchecks::c18(&args),
        "replay" => {
            let path = args.pos.first().cloned().unwrap_or_default();
            let txt = std::fs::read_to_string(&path).expect("read replay file");
            let v: serde_json::Value = serde_json::from_str(&txt).expect("replay json");
            let prop = v["property"].as_str().unwrap_or("").to_string();
            let mut rep = Report::new(&prop, &args.leg(), "replay", 0);
            let payload = &v["replay"];
            match prop.as_str() {
                "C01" => c01::replay(payload, &mut rep),
                "C02" => c02::replay(payload, &mut rep),
                "C03" => c03::replay(payload, &mut rep),
                "C06" => c06::replay(payload, &mut rep),
                "C07" => c07::replay(payload, &mut rep),
                "C08" => c08::replay(payload, &mut rep),
                "C19" => c19::replay(payload, &mut rep),
                "C20" => c20::replay(payload, &mut rep),
                #[cfg(feature = "db")]
                "C11" if payload["kind"] == "c11-schedule" => {
                    let mut a = util::Args { cmd: "c11conc".into(), kv: args.kv.clone(), pos: vec![] };
                    let _ = a.kv.insert("seed".into(), v["seed"].as_u64().unwrap_or(1).to_string());
                    let r = conc::run_c11(&a);
                    rep.evaluations += r.evaluations;
                    for f in r.findings {
                        rep.finding_for(&f.prop, &f.signature, &f.detail, f.replay);
                    }
                }
                #[cfg(feature = "db")]
                "C10" if payload["kind"] == "c10-schedule" => {
                    let mut a = util::Args { cmd: "c10conc".into(), kv: args.kv.clone(), pos: vec![] };
                    let _ = a.kv.insert("seed".into(), v["seed"].as_u64().unwrap_or(1).to_string());
                    let r = conc::run_c10(&a);
                    rep.evaluations += r.evaluations;
                    for f in r.findings {
                        rep.finding_for(&f.prop, &f.signature, &f.detail, f.replay);
                    }
                }
                #[cfg(feature = "db")]
                "C04" | "C05" | "C09" | "C10" | "C11" | "C12" | "C16" | "C17" | "C18" => {
                    let mut pl = payload.clone();
                    pl["tier"] = v["tier"].clone();
                    dbchecks::replay(&pl, &mut rep, &args)
                }
                #[cfg(feature = "db")]
                "C15" => refs::replay(payload, &mut rep, &args),
                #[cfg(feature = "db")]
                "C14" => {
                    let mut pl = payload.clone();
                    pl["seed"] = v["seed"].clone();
                    conc::replay(&pl, &mut rep, &args)
                }
                #[cfg(feature = "db")]
                "C13" => {
                    let mut pl = payload.clone();
                    if pl["tier"].is_null() {
                        pl["tier"] = v["tier"].clone();
                    }
                    crash::replay(&pl, &mut rep, &args)
                }
                _ => rep.notes.push(format!("no replay handler for {prop}")),
            }
            rep
        }
        other => {
            eprintln!("unknown command {other:?}");
            std::process::exit(2);
        }
    };
    rep.write(&args.out());
    let nf = rep.findings.len();
    eprintln!(
        "[pvmon {} leg={} tier={} seed={}] evaluations={} distinct_nontrivial={} findings={}",
        rep.prop,
        rep.leg,
        rep.tier,
        rep.seed,
        rep.evaluations,
        rep.distinct.len(),
        nf
    );
    for f in rep.findings.iter() {
        eprintln!("  finding {}/{} x{}: {}", f.prop, f.signature, f.count, f.detail);
    }
}
