//! C03 — All parsers are total and memory-safe on arbitrary bytes and buffer sizes.
use crate::sem::*;
use crate::util::*;
use pocket_types::json::{json_escape, json_unescape};
use pocket_types::{Addr, Event, Filter, Hll8, Id, Pubkey, Sig, Tags};
use serde_json::json;
use std::sync::atomic::{AtomicBool, AtomicU64, Ordering};
use std::sync::{Arc, Mutex};

#[derive(Clone, Copy, Debug, PartialEq, Eq)]
pub enum Entry {
    EventJson,
    FilterJson,
    TagsJson,
    Unescape,
    Escape,
    IdHex,
    PubkeyHex,
    SigHex,
    HllHex,
    Addr,
}

impl Entry {
    pub fn name(&self) -> &'static str {
        match self {
            Entry::EventJson => "event_from_json",
            Entry::FilterJson => "filter_from_json",
            Entry::TagsJson => "tags_from_json",
            Entry::Unescape => "json_unescape",
            Entry::Escape => "json_escape",
            Entry::IdHex => "id_read_hex",
            Entry::PubkeyHex => "pubkey_read_hex",
            Entry::SigHex => "sig_read_hex",
            Entry::HllHex => "hll_from_hex_string",
            Entry::Addr => "addr_try_from_bytes",
        }
    }
    pub fn from_name(s: &str) -> Option<Entry> {
        [Entry::EventJson, Entry::FilterJson, Entry::TagsJson, Entry::Unescape, Entry::Escape, Entry::IdHex,
         Entry::PubkeyHex, Entry::SigHex, Entry::HllHex, Entry::Addr]
            .into_iter()
            .find(|e| e.name() == s)
    }
    fn uses_buffer(&self) -> bool {
        matches!(self, Entry::EventJson | Entry::FilterJson | Entry::TagsJson | Entry::Unescape)
    }
}

pub static EXACT: AtomicBool = AtomicBool::new(false);

// ---- watchdog: a case that makes no progress for a long time is reported by exiting with code 86
pub struct Watch {
    beat: Arc<AtomicU64>,
    current: Arc<Mutex<Option<serde_json::Value>>>,
    /// the call in progress: (entry point, input, buffer length)
    in_call: Arc<Mutex<Option<(&'static str, Vec<u8>, usize)>>>,
}

impl Watch {
    pub fn start(out: String, secs: u64) -> Watch {
        let beat = Arc::new(AtomicU64::new(0));
        let current: Arc<Mutex<Option<serde_json::Value>>> = Arc::new(Mutex::new(None));
        let in_call: Arc<Mutex<Option<(&'static str, Vec<u8>, usize)>>> = Arc::new(Mutex::new(None));
        if !under_miri() {
            let b = beat.clone();
            let c = current.clone();
            let ic = in_call.clone();
            let _ = std::thread::spawn(move || {
                let mut last = b.load(Ordering::Relaxed);
                let mut stuck = 0u64;
                loop {
                    std::thread::sleep(std::time::Duration::from_secs(1));
                    let now = b.load(Ordering::Relaxed);
                    if now == last {
                        stuck += 1;
                    } else {
                        stuck = 0;
                        last = now;
                    }
                    if stuck >= secs {
                        let case = match ic.lock().unwrap().clone() {
                            Some((entry, input, buflen)) => json!({"kind":"call","entry":entry,"input_hex":hex(&input),"buflen":buflen,"input_preview":show(&input, 200)}),
                            None => c.lock().unwrap().clone().unwrap_or(json!(null)),
                        };
                        let v = json!({"property":"C03","signature":"non-termination","replay":case});
                        let _ = std::fs::write(format!("{out}.timeout"), serde_json::to_vec(&v).unwrap());
                        std::process::exit(86);
                    }
                }
            });
        }
        Watch { beat, current, in_call }
    }
    /// a monitored call begins (kept for the watchdog: if it never returns, this is the case to report)
    pub fn enter(&self, entry: &'static str, input: &[u8], buflen: usize) {
        *self.in_call.lock().unwrap() = Some((entry, input.to_vec(), buflen));
    }
    pub fn leave(&self) {
        *self.in_call.lock().unwrap() = None;
    }
    #[inline]
    pub fn tick(&self) {
        let _ = self.beat.fetch_add(1, Ordering::Relaxed);
    }
    pub fn set_case(&self, v: serde_json::Value) {
        *self.current.lock().unwrap() = Some(v);
    }
}

fn replay_of(entry: Entry, input: &[u8], buflen: usize) -> serde_json::Value {
    json!({"kind":"call","entry":entry.name(),"input_hex":hex(input),"buflen":buflen,"input_preview":show(input, 200)})
}

fn fixed_event() -> pocket_types::OwnedEvent {
    crate::c01::base_events().0.to_owned().unwrap()
}

fn fixed_filter() -> pocket_types::OwnedFilter {
    SemFilter { kinds: vec![1], tags: vec![("e".into(), vec!["x".into()])], ..SemFilter::empty() }.to_owned().unwrap()
}

fn battery_tags(t: &Tags) {
    let n = t.count();
    let _ = t.is_empty();
    let mut total = 0usize;
    for tag in t.iter() {
        for s in tag {
            total += s.len();
        }
    }
    for i in 0..n.min(300) + 1 {
        for j in 0..6 {
            let _ = t.get_string(i, j);
        }
    }
    let _ = t.get_value(b"d");
    let _ = t.get_value(b"");
    let _ = t.matches(b"e", b"x");
    // lookups with the names and values the tags themselves hold
    for i in 0..n.min(40) {
        if let Some(name) = t.get_string(i, 0) {
            let _ = t.get_value(name);
            let v = t.get_string(i, 1).unwrap_or(b"");
            let _ = t.matches(name, v);
            let _ = t.matches(v, name);
        }
    }
    let _ = t.as_json();
    let _ = format!("{t}");
    let o = t.to_owned();
    let mut buf = vec![0u8; t.as_bytes().len()];
    let _ = t.copy(&mut buf);
    let _ = t.copy(&mut buf[..0]);
    let _ = o.count();
    let _ = total;
}

fn battery_event(e: &Event) {
    let _ = (e.id(), e.pubkey(), e.sig(), e.kind(), e.created_at(), e.len());
    if let Ok(t) = e.tags() {
        battery_tags(t);
    }
    let _ = e.content().len();
    let _ = e.as_json();
    let _ = format!("{e}");
    let o = e.to_owned();
    let mut buf = vec![0u8; e.len()];
    let _ = e.copy(&mut buf);
    let _ = e.copy(&mut buf[..0]);
    let _ = e.is_expired();
    // hex writers into exact, short and empty buffers (errors, never panics), and the allocating forms
    {
        let mut b64 = [0u8; 64];
        let mut b128 = [0u8; 128];
        let _ = e.id().write_hex(&mut b64);
        let _ = e.id().write_hex(&mut b64[..63]);
        let _ = e.id().write_hex(&mut b64[..0]);
        let _ = e.pubkey().write_hex(&mut b64);
        let _ = e.pubkey().write_hex(&mut b64[..1]);
        let _ = e.sig().write_hex(&mut b128);
        let _ = e.sig().write_hex(&mut b128[..127]);
        let h = e.id().as_hex_string();
        if let Ok(back) = pocket_types::Id::read_hex(h.as_bytes()) {
            assert!(back.as_slice() == e.id().as_slice(), "Id hex writer and reader disagree");
        } else {
            panic!("Id::read_hex rejects Id::as_hex_string output");
        }
        let _ = e.pubkey().as_hex_string();
    }
    if !under_miri() {
        let _ = e.verify();
    }
    let _ = fixed_filter().event_matches(e);
    let _ = o.len();
    let _ = e == e;
    let _ = e.cmp(e);
}

fn battery_filter(f: &Filter) {
    let _ = (f.num_ids(), f.num_authors(), f.num_kinds(), f.limit(), f.since(), f.until(), f.len(), f.completes());
    let _ = f.ids().count();
    let _ = f.authors().count();
    let _ = f.kinds().count();
    if let Ok(t) = f.tags() {
        battery_tags(t);
    }
    let _ = f.as_json();
    let _ = format!("{f}");
    let o = f.to_owned();
    let mut buf = vec![0u8; f.len()];
    let _ = f.copy(&mut buf);
    let _ = f.copy(&mut buf[..0]);
    let _ = f.hyperloglog_offset();
    let _ = f.event_matches(&fixed_event());
    let _ = o.len();
}

/// One call of one entry point, fully monitored.
pub fn call(rep: &mut Report, w: &Watch, entry: Entry, input: &[u8], buflen: usize) {
    w.tick();
    w.enter(entry.name(), input, buflen);
    let exact = EXACT.load(Ordering::Relaxed) || under_miri();
    let mut g = Guarded::new(if entry.uses_buffer() { buflen } else { 0 }, 0xA5, exact);
    let mut past_first_check = false;
    let mut h = vec![entry as u8];
    h.extend_from_slice(&(buflen as u32).to_le_bytes());
    h.extend_from_slice(input);
    let hash = fnv(&h);
    let outcome = catch(|| -> Result<Option<String>, String> {
        match entry {
            Entry::EventJson => match Event::from_json(input, g.slice()) {
                Ok((consumed, e)) => {
                    if consumed > input.len() {
                        return Err(format!("consumed {consumed} > input length {}", input.len()));
                    }
                    let bytes = e.as_bytes().to_vec();
                    let r = catch(|| battery_event(unsafe { Event::delineate(&bytes).unwrap() }));
                    Ok(r.err().map(|p| format!("{}|{}", p.location, p.message)))
                }
                Err(_) => Ok(None),
            },
            Entry::FilterJson => match Filter::from_json(input, g.slice()) {
                Ok((consumed, outlen, f)) => {
                    if consumed > input.len() {
                        return Err(format!("consumed {consumed} > input length {}", input.len()));
                    }
                    if outlen > buflen {
                        return Err(format!("output length {outlen} > buffer {buflen}"));
                    }
                    let bytes = f.as_bytes().to_vec();
                    let r = catch(|| battery_filter(unsafe { Filter::delineate(&bytes).unwrap() }));
                    Ok(r.err().map(|p| format!("{}|{}", p.location, p.message)))
                }
                Err(_) => Ok(None),
            },
            Entry::TagsJson => match Tags::from_json(input, g.slice()) {
                Ok((consumed, t)) => {
                    if consumed > input.len() {
                        return Err(format!("consumed {consumed} > input length {}", input.len()));
                    }
                    let bytes = t.as_bytes().to_vec();
                    let r = catch(|| battery_tags(unsafe { Tags::delineate(&bytes).unwrap() }));
                    Ok(r.err().map(|p| format!("{}|{}", p.location, p.message)))
                }
                Err(_) => Ok(None),
            },
            Entry::Unescape => match json_unescape(input, g.slice()) {
                Ok((inlen, outlen)) => {
                    if inlen > input.len() {
                        return Err(format!("consumed {inlen} > input length {}", input.len()));
                    }
                    if outlen > buflen {
                        return Err(format!("wrote {outlen} > buffer {buflen}"));
                    }
                    Ok(None)
                }
                Err(_) => Ok(None),
            },
            Entry::Escape => {
                let _ = json_escape(input, Vec::new());
                Ok(None)
            }
            Entry::IdHex => {
                let _ = Id::read_hex(input);
                Ok(None)
            }
            Entry::PubkeyHex => {
                let _ = Pubkey::read_hex(input);
                Ok(None)
            }
            Entry::SigHex => {
                let _ = Sig::read_hex(input);
                Ok(None)
            }
            Entry::HllHex => {
                let s = String::from_utf8_lossy(input);
                if let Ok(h) = Hll8::from_hex_string(&s) {
                    let _ = h.estimate_count();
                    let _ = h.to_hex_string();
                }
                Ok(None)
            }
            Entry::Addr => {
                if let Ok(a) = Addr::try_from_bytes(input) {
                    let _ = (a.kind, a.author, a.d.len());
                }
                Ok(None)
            }
        }
    });
    w.leave();
    // non-trivial: got past the very first length check (a heuristic: input long enough / buffer non-zero)
    match entry {
        Entry::EventJson => past_first_check = input.len() >= 204 && buflen >= 152,
        Entry::FilterJson => past_first_check = input.len() >= 2 && buflen >= 32,
        _ => past_first_check = past_first_check || !input.is_empty(),
    }
    rep.eval(hash, past_first_check);
    rep.count(&format!("calls:{}", entry.name()));
    if !g.intact() {
        rep.finding(&format!("write-outside-buffer:{}", entry.name()), "canary zone around the output slice was modified", replay_of(entry, input, buflen));
    }
    match outcome {
        Ok(Ok(None)) => {}
        Ok(Ok(Some(bp))) => {
            let (loc, msg) = bp.split_once('|').unwrap_or(("?", &bp));
            rep.finding(
                &format!("accessor-panic:{}:{}@{}", entry.name(), panic_class(msg), loc),
                &format!("an accessor/iterator/serialiser panicked on an Ok result: {msg}"),
                replay_of(entry, input, buflen),
            );
        }
        Ok(Err(why)) => rep.finding(&format!("bad-length-report:{}", entry.name()), &why, replay_of(entry, input, buflen)),
        Err(p) => rep.finding(
            &format!("panic:{}:{}@{}", entry.name(), panic_class(&p.message), p.location),
            &format!("{} (input {} bytes, buffer {})", p.message, input.len(), buflen),
            replay_of(entry, input, buflen),
        ),
    }
}

// ------------------------------------------------------------------------------------------ base texts

pub struct Base {
    pub entry: Entry,
    pub text: Vec<u8>,
}

pub fn base_texts(rng: &mut Rng) -> Vec<Base> {
    let mut v = vec![];
    let (e1, e2) = crate::c01::base_events();
    let suite_event = br#"{"id":"a9663055164ab8b30d9524656370c4bf93393bb051b7edf4556f40c5298dc0c7","pubkey":"ee11a5dff40c19a555f41fe42b48f00e618c91225622ae37b6c2bb67b76c4e49","created_at":1681778790,"kind":1,"sig":"4dfea1a6f73141d5691e43afc3234dbe73016db0fb207cf247e0127cc2591ee6b4be5b462272030a9bde75882aae810f359682b1b6ce6cbb97201141c576db42","content":"He got snowed in","tags":[["client","gossip"],["p","e2ccf7cf20403f3f2a4a55b328f0de3be38558a7d5f33632fdaaefc726c1c8eb"],["e","2c86abcc98f7fd8a6750aab8df6c1863903f107206cc2d72e8afeb6c38357aed","wss://nostr-pub.wellorder.net/","root"]]}"#;
    v.push(Base { entry: Entry::EventJson, text: suite_event.to_vec() });
    for (e, orders) in [(&e1, vec![[0, 1, 2, 3, 4, 5, 6], [5, 4, 3, 2, 1, 0, 6], [3, 6, 5, 0, 4, 1, 2]]), (&e2, vec![[0, 1, 2, 3, 4, 5, 6], [4, 5, 6, 3, 2, 1, 0]])] {
        for o in orders {
            let mut r = EvRender::plain();
            r.order = o;
            v.push(Base { entry: Entry::EventJson, text: render_event(e, &r, rng).0 });
        }
    }
    {
        let mut r = EvRender::plain();
        r.ws = Ws::AllGaps(vec![b' ']);
        r.esc = Esc::AllULower;
        r.unknown = vec![Unknown { pos: 2, key_text: b"\"x\"".to_vec(), val_text: b"[1,{\"a\":[null,\"s\"]}]".to_vec() }];
        v.push(Base { entry: Entry::EventJson, text: render_event(&e1, &r, rng).0 });
        let mut e = e2.clone();
        e.content = "\u{1d11e}\u{e9}\u{2020}\\\"".into();
        e.tags = vec![vec![], vec![String::new()], vec!["expiration".into(), "1712693529".into()], vec!["\u{1f600}".into()]];
        v.push(Base { entry: Entry::EventJson, text: render_event(&e, &EvRender::plain(), rng).0 });
        // literals and numbers of every kind in unknown members, first, in the middle and last
        let mut r = EvRender::plain();
        r.unknown = vec![
            Unknown { pos: 0, key_text: b"\"t\"".to_vec(), val_text: b"true".to_vec() },
            Unknown { pos: 3, key_text: b"\"f\"".to_vec(), val_text: b"[false,null,-0.5e+10,1E2,{\"k\":true}]".to_vec() },
            Unknown { pos: 7, key_text: b"\"n\"".to_vec(), val_text: b"null".to_vec() },
        ];
        v.push(Base { entry: Entry::EventJson, text: render_event(&e1, &r, rng).0 });
    }
    for t in [
        r##"{}"##,
        r##"{"kinds":[1,30023],"since":1681778790,"authors":["e2ccf7cf20403f3f2a4a55b328f0de3be38558a7d5f33632fdaaefc726c1c8eb","2c86abcc98f7fd8a6750aab8df6c1863903f107206cc2d72e8afeb6c38357aed"],"until":1704238196,"ids" : [ "7089afc2e77f366bc0fd1662e4048f59f18391c04a35957f21bbd1f3e6a492c4"],"limit":10, "#e":["a9663055164ab8b30d9524656370c4bf93393bb051b7edf4556f40c5298dc0c7"]}"##,
        r##"{"#e":["a","b\"c","é"],"#p":[],"search":"x","limit":0}"##,
        r##"{"kinds": [3], "#p": ["a9663055164ab8b30d9524656370c4bf93393bb051b7edf4556f40c5298dc0c7"]}"##,
        r##" { "until" : 5 , "since" : 6 , "#t" : [ "x" , "y" ] , "unknown" : { "a" : [ 1 , 2 ] } } "##,
        // unknown members holding every kind of literal and number (their prefixes end inside `true`, `false`, `null`,
        // an exponent, ...), also as the very last member
        r##"{"a":true,"b":false,"c":null,"kinds":[1],"d":-1.5e+3,"e":[true,false,null,0.0,1E-2],"f":{"g":true},"h":true}"##,
        r##"{"z":null}"##,
        r##"{"z":false}"##,
    ] {
        v.push(Base { entry: Entry::FilterJson, text: t.as_bytes().to_vec() });
    }
    for t in [
        r#"[]"#,
        r#"[[]]"#,
        r#"[["-"],[]]"#,
        r#"[["Hello world!","Hello","world!"],["p","ee11a5dff40c19a555f41fe42b48f00e618c91225622ae37b6c2bb67b76c4e49"]]"#,
        r#"[ [ "a\n\"b" , "é†" ] , [ ] , [ "" ] ]"#,
        // strings whose content looks like structure: a scanner and a decoder that disagree about where a
        // string ends will disagree about the shape of what follows
        r#"[["a"],["]]"]]"#,
        r#"[["a","],["],["]"],["[["]]"#,
        r#"[["x","y"],[""],[""],["]],[["]]"#,
    ] {
        v.push(Base { entry: Entry::TagsJson, text: t.as_bytes().to_vec() });
    }
    {
        let mut e = e2.clone();
        e.tags = vec![vec!["a".into()], vec!["]]".into()], vec!["\"],[\"".into(), "],\"content\":\"".into()]];
        e.content = "\"}".into();
        v.push(Base { entry: Entry::EventJson, text: render_event(&e, &EvRender::plain(), rng).0 });
        let mut r = EvRender::plain();
        r.order = [5, 4, 0, 1, 2, 3, 6];
        v.push(Base { entry: Entry::EventJson, text: render_event(&e, &r, rng).0 });
        v.push(Base { entry: Entry::FilterJson, text: br##"{"#e":["a"],"#p":["]}"],"x":"\"]}","#t":["],\"#q\":["]}"##.to_vec() });
    }
    for t in [
        &br#"hello\t\tworld\n!!!", "next""#[..],
        "{\\\"name\\\":\\\"BagMan\\\",\\\"about\\\":\\\"Father.\\nNerd: \u{2020}.\\\"}\" tail".as_bytes(),
        "\u{1d11e} \u{e9} \\u000b\\/\\\\\\b\\f\"".as_bytes(),
        "\u{1f600}\"".as_bytes(),
        b"plain",
        b"",
    ] {
        v.push(Base { entry: Entry::Unescape, text: t.to_vec() });
    }
    for t in [&b"hello\t\tworld\n!!!"[..], "\u{1d11e}\u{e9}\u{2020}\"\\/\u{7f}".as_bytes(), &[0, 1, 2, 3, 8, 9, 10, 11, 12, 13, 31, 32, 127][..]] {
        v.push(Base { entry: Entry::Escape, text: t.to_vec() });
    }
    v.push(Base { entry: Entry::IdHex, text: hex(&rng.arr32()).into_bytes() });
    v.push(Base { entry: Entry::PubkeyHex, text: hex(&rng.arr32()).to_uppercase().into_bytes() });
    v.push(Base { entry: Entry::SigHex, text: hex(&rng.arr64()).into_bytes() });
    v.push(Base { entry: Entry::HllHex, text: hex(&rng.bytes(256)).into_bytes() });
    for t in [
        format!("30023:{}:sandwiches", hex(&rng.arr32())),
        format!("0:{}:", hex(&rng.arr32())),
        format!("10002:{}:a:b:c", hex(&rng.arr32())),
    ] {
        v.push(Base { entry: Entry::Addr, text: t.into_bytes() });
    }
    v
}

const CORRUPT: [u8; 16] = [0x00, 0x22, 0x5C, 0x7F, 0x80, 0xC0, 0xE0, 0xF0, 0xF7, 0xFF, b'[', b']', b'{', b'}', b',', b':'];

fn big_buf(entry: Entry, input: &[u8]) -> usize {
    if entry.uses_buffer() {
        2 * input.len() + 1024
    } else {
        0
    }
}

pub fn run(args: &Args) -> Report {
    let mut rep = Report::new("C03", &args.leg(), &args.tier(), args.seed());
    let mut rng = Rng::new(args.seed() ^ 0xC03);
    let thorough = args.thorough();
    if args.flag("exact") {
        EXACT.store(true, Ordering::Relaxed);
    }
    let w = Watch::start(args.out(), 25);
    let sample = args.get("sample").map(|_| args.get_u64("sample", 0));
    let (shard, nshards) = args.shard();
    let bases = base_texts(&mut rng);
    let mut caseno: u64 = 0;
    let mine = |caseno: &mut u64| -> bool {
        *caseno += 1;
        (*caseno % nshards) == shard
    };

    if let Some(n) = sample {
        // small seeded sample across all sweep families (for Miri)
        for _ in 0..n {
            let b = rng.pick(&bases);
            let mut t = b.text.clone();
            match rng.below(5) {
                0 => t.truncate(rng.usize_below(t.len() + 1)),
                1 => {
                    if !t.is_empty() {
                        let i = rng.usize_below(t.len());
                        t[i] = *rng.pick(&CORRUPT);
                    }
                }
                2 => {
                    if !t.is_empty() {
                        let i = rng.usize_below(t.len());
                        t.insert(i, *rng.pick(&CORRUPT));
                    }
                }
                _ => {}
            }
            let need = big_buf(b.entry, &t);
            let buflen = match rng.below(3) {
                0 => need,
                1 => rng.usize_below(need.min(700) + 1),
                _ => rng.usize_below(200),
            };
            w.set_case(replay_of(b.entry, &t, buflen));
            call(&mut rep, &w, b.entry, &t, buflen);
        }
        return rep;
    }

    // a. every prefix of every base text
    for b in bases.iter() {
        for n in 0..=b.text.len() {
            if !mine(&mut caseno) {
                continue;
            }
            let t = &b.text[..n];
            w.set_case(replay_of(b.entry, t, big_buf(b.entry, t)));
            call(&mut rep, &w, b.entry, t, big_buf(b.entry, t));
            rep.count("sweep:prefix");
        }
    }
    rep.sample(json!({"sweep":"prefix","entry":bases[0].entry.name(),"text":show(&bases[0].text[..230], 230)}));

    // b. every single-byte corruption at every position
    for b in bases.iter() {
        let extra = if thorough { 6 } else { 1 };
        for pos in 0..b.text.len() {
            let mut bytes: Vec<u8> = CORRUPT.to_vec();
            for _ in 0..extra {
                bytes.push(rng.below(256) as u8);
            }
            for c in bytes {
                if c == b.text[pos] {
                    continue;
                }
                if !mine(&mut caseno) {
                    continue;
                }
                let mut t = b.text.clone();
                t[pos] = c;
                w.set_case(replay_of(b.entry, &t, big_buf(b.entry, &t)));
                call(&mut rep, &w, b.entry, &t, big_buf(b.entry, &t));
                rep.count("sweep:corrupt-byte");
            }
        }
    }

    // b2. a UTF-8 lead byte (or a truncated multi-byte sequence) directly before every structural
    //     character, so that a lenient decoder would swallow a quote / bracket / comma as a continuation byte
    {
        let prefixes: [&[u8]; 10] = [&[0xC2], &[0xC3], &[0xDF], &[0xE0], &[0xEF], &[0xF0], &[0xF4], &[0xE2, 0x82], &[0xF0, 0x9F], &[0xF0, 0x9F, 0x98]];
        for b in bases.iter() {
            for pos in 0..b.text.len() {
                if !b"\"[]{},:\\".contains(&b.text[pos]) {
                    continue;
                }
                for pre in prefixes.iter() {
                    if !mine(&mut caseno) {
                        continue;
                    }
                    let mut t = b.text.clone();
                    let _ = t.splice(pos..pos, pre.iter().cloned());
                    w.set_case(replay_of(b.entry, &t, big_buf(b.entry, &t)));
                    call(&mut rep, &w, b.entry, &t, big_buf(b.entry, &t));
                    rep.count("sweep:lead-byte-before-structural-char");
                }
            }
        }
    }

    // c. span insertion / deletion / duplication, high bytes, truncated UTF-8 at the end
    let nspan = if thorough { 400_000 } else { 20_000 };
    for k in 0..nspan {
        let b = rng.pick(&bases);
        let mut t = b.text.clone();
        match rng.below(8) {
            0 => {
                if t.len() > 2 {
                    let a = rng.usize_below(t.len());
                    let l = rng.usize_below((t.len() - a).min(40) + 1);
                    let _ = t.drain(a..a + l);
                }
            }
            1 => {
                if t.len() > 2 {
                    let a = rng.usize_below(t.len());
                    let l = rng.usize_below((t.len() - a).min(40) + 1);
                    let span = t[a..a + l].to_vec();
                    let at = rng.usize_below(t.len() + 1);
                    let _ = t.splice(at..at, span.into_iter());
                }
            }
            2 => {
                let at = rng.usize_below(t.len() + 1);
                let n = 1 + rng.usize_below(6);
                let ins: Vec<u8> = (0..n).map(|_| 0x80 + rng.below(0x80) as u8).collect();
                let _ = t.splice(at..at, ins.into_iter());
            }
            3 => {
                // truncated multi-byte sequence at the end of the input
                let n = rng.usize_below(t.len() + 1);
                t.truncate(n);
                t.push(*rng.pick(&[0xC3u8, 0xE2, 0xF0, 0xF4, 0xFF]));
                if rng.chance(1, 2) {
                    t.push(0x82);
                }
            }
            4 => {
                // unterminated string / escape
                let n = rng.usize_below(t.len() + 1);
                t.truncate(n);
                t.extend_from_slice(*rng.pick(&[&b"\""[..], b"\\", b"\\u", b"\\u1", b"\\u12", b"\\u123", b"\"\\", b"\"abc", b"[\"", b"[[\"a\",", b"{\"", b"{\"a\":", b"[", b"{", b","]));
            }
            5 => {
                // random bytes
                for _ in 0..1 + rng.usize_below(4) {
                    if !t.is_empty() {
                        let i = rng.usize_below(t.len());
                        t[i] = rng.below(256) as u8;
                    }
                }
            }
            6 => {
                // swap two spans
                if t.len() > 20 {
                    let a = rng.usize_below(t.len() - 10);
                    let c = rng.usize_below(t.len() - 10);
                    for i in 0..8 {
                        t.swap(a + i, c + i);
                    }
                }
            }
            _ => {
                // pure noise
                let n = rng.usize_below(300);
                t = rng.bytes(n);
            }
        }
        if !mine(&mut caseno) {
            continue;
        }
        let need = big_buf(b.entry, &t);
        let buflen = if k % 4 == 0 { rng.usize_below(need.min(800) + 1) } else { need };
        w.set_case(replay_of(b.entry, &t, buflen));
        call(&mut rep, &w, b.entry, &t, buflen);
        rep.count("sweep:spans-and-noise");
    }

    // d. numbers in every integer position: 1..200 digits, then every value within 12 of a power of two up to
    // 2^66 and within 12 of the powers of ten around the 64-bit limit (the last checked step of an accumulating
    // reader only overflows for a handful of values right at the limit)
    let mut numbers: Vec<String> = (1..=200usize).map(|digits| (0..digits).map(|i| (b'1' + ((i * 7) % 9) as u8) as char).collect()).collect();
    for bits in [8u32, 16, 31, 32, 63, 64, 65, 66] {
        let base: u128 = 1u128 << bits;
        for d in 0..=12u128 {
            numbers.push(format!("{}", base + d));
            numbers.push(format!("{}", base - d));
        }
    }
    for p10 in [19u32, 20, 21] {
        let base: u128 = 10u128.pow(p10);
        for d in 0..=3u128 {
            numbers.push(format!("{}", base + d));
            numbers.push(format!("{}", base - d));
        }
    }
    numbers.push("00000000000000000000000000000000000000001".into());
    numbers.push("0".into());
    for num in numbers {
        if !mine(&mut caseno) {
            continue;
        }
        let (_, e2) = crate::c01::base_events();
        for (kt, ct) in [(Some(num.clone()), None), (None, Some(num.clone()))] {
            let mut r = EvRender::plain();
            r.kind_text = kt;
            r.created_text = ct;
            let t = render_event(&e2, &r, &mut rng).0;
            w.set_case(replay_of(Entry::EventJson, &t, big_buf(Entry::EventJson, &t)));
            call(&mut rep, &w, Entry::EventJson, &t, big_buf(Entry::EventJson, &t));
        }
        for m in ["since", "until", "limit"] {
            let t = format!("{{\"{m}\":{num}}}").into_bytes();
            call(&mut rep, &w, Entry::FilterJson, &t, 4096);
        }
        let t = format!("{{\"kinds\":[{num}]}}").into_bytes();
        call(&mut rep, &w, Entry::FilterJson, &t, 4096);
        let t = format!("{num}:{}:x", hex(&[1u8; 32])).into_bytes();
        call(&mut rep, &w, Entry::Addr, &t, 0);
        // NIP-40 expiration tag values are parsed as integers too
        let mut e = e2.clone();
        e.tags = vec![vec!["expiration".into(), num.clone()]];
        let t = render_event(&e, &EvRender::plain(), &mut rng).0;
        call(&mut rep, &w, Entry::EventJson, &t, big_buf(Entry::EventJson, &t));
        rep.count("sweep:long-numbers");
    }

    // e. 0..60 '#x' members in one filter (distinct, repeated, more than 32, more than 52)
    for n in 0..=60usize {
        if !mine(&mut caseno) {
            continue;
        }
        let ls: Vec<char> = ('a'..='z').chain('A'..='Z').collect();
        for variant in 0..3 {
            let mut members = vec![];
            for i in 0..n {
                let c = match variant {
                    0 => ls[i % 52],
                    1 => ls[(i * 5) % 7],
                    _ => ls[51 - (i % 52)],
                };
                members.push(format!("\"#{c}\":[\"v{i}\"]"));
            }
            let t = format!("{{{}}}", members.join(",")).into_bytes();
            w.set_case(replay_of(Entry::FilterJson, &t, 8192));
            call(&mut rep, &w, Entry::FilterJson, &t, 8192);
            call(&mut rep, &w, Entry::FilterJson, &t, 40 + n * 3);
            rep.count("sweep:many-tag-members");
        }
    }
    // ... and every single letter repeated 2, 33, 53 and 60 times (duplicate members are outside the domain of the
    // faithfulness properties, but no input may panic or overrun the per-letter bookkeeping)
    for (li, c) in ('a'..='z').chain('A'..='Z').enumerate() {
        if !mine(&mut caseno) {
            continue;
        }
        for n in [2usize, 33, 53, 60] {
            let members: Vec<String> = (0..n).map(|i| format!("\"#{c}\":[\"v{i}\"]")).collect();
            let t = format!("{{{}}}", members.join(",")).into_bytes();
            w.set_case(replay_of(Entry::FilterJson, &t, 8192));
            call(&mut rep, &w, Entry::FilterJson, &t, 8192);
        }
        let _ = li;
        rep.count("sweep:one-letter-repeated");
    }
    // very long id / author / kind lists (count fields are 16 bit)
    if mine(&mut caseno) {
        for count in [1000usize, 65535, 65536, 70000] {
            if !thorough && count > 1000 && count != 65536 {
                continue;
            }
            let idhex = hex(&[0xabu8; 32]);
            let mut t = String::from("{\"ids\":[");
            for i in 0..count {
                if i > 0 {
                    t.push(',');
                }
                t.push('"');
                t.push_str(&idhex);
                t.push('"');
            }
            t.push_str("]}");
            let t = t.into_bytes();
            w.set_case(json!({"kind":"generated","what":"ids-list","count":count}));
            call(&mut rep, &w, Entry::FilterJson, &t, 64 + 32 * count);
            let mut t = String::from("{\"kinds\":[");
            for i in 0..count {
                if i > 0 {
                    t.push(',');
                }
                t.push_str(&(i % 65536).to_string());
            }
            t.push_str("]}");
            call(&mut rep, &w, Entry::FilterJson, t.as_bytes(), 64 + 2 * count);
            rep.count("sweep:long-lists");
        }
    }

    // f. output buffer lengths 0 .. required+8 for every base text, and around 2^16
    for b in bases.iter().filter(|b| b.entry.uses_buffer()) {
        // find the required size with a big buffer first
        let mut big = vec![0u8; big_buf(b.entry, &b.text)];
        let required = match b.entry {
            Entry::EventJson => catch(|| Event::from_json(&b.text, &mut big).map(|(_, e)| e.len()).unwrap_or(160)).unwrap_or(160),
            Entry::FilterJson => catch(|| Filter::from_json(&b.text, &mut big).map(|(_, n, _)| n).unwrap_or(64)).unwrap_or(64),
            Entry::TagsJson => catch(|| Tags::from_json(&b.text, &mut big).map(|(_, t)| t.as_bytes().len()).unwrap_or(16)).unwrap_or(16),
            _ => b.text.len(),
        };
        let upper = required.max(170) + 8;
        for n in 0..=upper {
            if !mine(&mut caseno) {
                continue;
            }
            w.set_case(replay_of(b.entry, &b.text, n));
            call(&mut rep, &w, b.entry, &b.text, n);
            rep.count("sweep:buffer-length");
        }
    }
    {
        // tag sections around the 16-bit limit, with output buffers around 2^16
        let (_, e2) = crate::c01::base_events();
        for strlen in [65520usize, 65525, 65526, 65527, 65535, 65536, 70000] {
            if !mine(&mut caseno) {
                continue;
            }
            let mut e = e2.clone();
            e.tags = vec![vec!["x".repeat(strlen)]];
            let t = render_event(&e, &EvRender::plain(), &mut rng).0;
            for buflen in [65535usize, 65536, 65537, 65536 + 152, 65536 + 160, 200_000] {
                w.set_case(json!({"kind":"generated","what":"one-long-tag-string","strlen":strlen,"buflen":buflen}));
                call(&mut rep, &w, Entry::EventJson, &t, buflen);
            }
            let mut tt = vec![];
            render_tags(&e.tags, Esc::Minimal, &mut Gaps::new(&Ws::None), &mut rng, &mut tt);
            call(&mut rep, &w, Entry::TagsJson, &tt, 200_000);
            call(&mut rep, &w, Entry::TagsJson, &tt, 65536);
            let ft = format!("{{\"#e\":[\"{}\"]}}", "y".repeat(strlen)).into_bytes();
            call(&mut rep, &w, Entry::FilterJson, &ft, 200_000);
            rep.count("sweep:16-bit-boundaries");
        }
        for ntags in [32767usize, 32768, 65535, 65536, 70000] {
            if !mine(&mut caseno) {
                continue;
            }
            let mut tt = String::from("[");
            for i in 0..ntags {
                if i > 0 {
                    tt.push(',');
                }
                tt.push_str("[]");
            }
            tt.push(']');
            w.set_case(json!({"kind":"generated","what":"many-empty-tags","ntags":ntags}));
            call(&mut rep, &w, Entry::TagsJson, tt.as_bytes(), 600_000);
            rep.count("sweep:16-bit-boundaries");
        }
    }

    // g. hex strings of every length 0..130 and 510..514, with bad digits and high bytes
    for len in (0..=130usize).chain(254..=258).chain(510..=514) {
        if !mine(&mut caseno) {
            continue;
        }
        for variant in 0..4 {
            let mut t: Vec<u8> = hex(&rng.bytes(len / 2 + 1)).into_bytes();
            t.truncate(len);
            if variant == 1 && len > 0 {
                let i = rng.usize_below(len);
                t[i] = *rng.pick(&[b'g', b'G', b' ', b'/', b':', b'@', b'`', 0x00, 0x7f]);
            }
            if variant == 2 && len > 0 {
                let i = rng.usize_below(len);
                t[i] = 0x80 + rng.below(0x80) as u8;
            }
            if variant == 3 {
                t = t.to_ascii_uppercase();
            }
            for e in [Entry::IdHex, Entry::PubkeyHex, Entry::SigHex, Entry::HllHex] {
                w.set_case(replay_of(e, &t, 0));
                call(&mut rep, &w, e, &t, 0);
            }
            // as the id / pubkey / sig of an event, and as ids of a filter
            let (_, e2) = crate::c01::base_events();
            let txt = render_event(&e2, &EvRender::plain(), &mut rng).0;
            let s = String::from_utf8_lossy(&txt).to_string();
            let idhex = hex(&e2.id);
            if let Some(p) = s.find(&idhex) {
                let mut tt = txt.clone();
                let _ = tt.splice(p..p + 64, t.iter().cloned());
                call(&mut rep, &w, Entry::EventJson, &tt, big_buf(Entry::EventJson, &tt));
            }
            let mut ft = b"{\"authors\":[\"".to_vec();
            ft.extend_from_slice(&t);
            ft.extend_from_slice(b"\"]}");
            call(&mut rep, &w, Entry::FilterJson, &ft, 4096);
            // NIP-45 offset extraction reads byte 32 of the hex value
            let mut ft = b"{\"kinds\":[3],\"#p\":[\"".to_vec();
            ft.extend_from_slice(&t);
            ft.extend_from_slice(b"\"]}");
            call(&mut rep, &w, Entry::FilterJson, &ft, 4096);
        }
        rep.count("sweep:hex-lengths");
    }

    // g1b. filters of the shapes the NIP-45 offset extraction looks at (one kind 3 / 7, one #p / #e constraint) whose
    //      first value is 63..65 bytes long with, at every position, a non-hex ASCII byte or a 2/3/4-byte character
    //      (raw and as \u escapes) - the accessor reads single bytes of that value
    if mine(&mut caseno) {
        for (kind, letter) in [(3, 'p'), (7, 'e'), (3, 'e'), (1, 'p')] {
            for total in [63usize, 64, 65] {
                for pos in 0..total {
                    for (raw, spelled) in [("g", "g"), ("\u{7f}", "\u{7f}"), ("\u{e9}", "\u{e9}"), ("\u{e9}", "\\u00e9"), ("\u{20ac}", "\u{20ac}"), ("\u{20ac}", "\\u20AC"), ("\u{1f600}", "\u{1f600}"), ("\u{1f600}", "\\ud83d\\ude00")] {
                        if pos + raw.len() > total {
                            continue;
                        }
                        let fill = |n: usize| "0123456789abcdef".chars().cycle().take(n).collect::<String>();
                        let v = format!("{}{}{}", fill(pos), spelled, fill(total - pos - raw.len()));
                        let t = format!("{{\"kinds\":[{kind}],\"#{letter}\":[\"{v}\"]}}").into_bytes();
                        w.set_case(replay_of(Entry::FilterJson, &t, 4096));
                        call(&mut rep, &w, Entry::FilterJson, &t, 4096);
                        rep.count("sweep:nip45-shaped-filters");
                    }
                }
            }
        }
    }

    // g2. every kind of `\u` escape at the edges of its ranges (incl. lone and paired surrogates, NUL, the last BMP
    //     scalar), upper and lower case, truncated, as a tag string, as content, as a filter value and bare
    if mine(&mut caseno) {
        let (_, e2) = crate::c01::base_events();
        for cp in ["0000", "001f", "007f", "0080", "07ff", "0800", "d7ff", "d800", "dbff", "dc00", "dfff", "DFFF", "e000", "fffe", "ffff", "FFFF", "d83d\\ude00", "dc00\\ud800", "d800\\u0041", "12", "123", "12g4", ""] {
            let esc = format!("\\u{cp}");
            for s in [format!("\"{esc}\""), format!("\"a{esc}b\""), format!("\"{esc}{esc}\"")] {
                let t = s.clone().into_bytes();
                call(&mut rep, &w, Entry::Unescape, &t, 64);
                let t = format!("[[\"t\",{s}],[{s}]]").into_bytes();
                call(&mut rep, &w, Entry::TagsJson, &t, 4096);
                let t = format!("{{\"#e\":[{s}]}}").into_bytes();
                call(&mut rep, &w, Entry::FilterJson, &t, 4096);
                let base = render_event(&e2, &EvRender::plain(), &mut rng).0;
                let text = String::from_utf8_lossy(&base).replace("\"content\":\"", &format!("\"content\":{}, \"x\":\"", s));
                let t = text.into_bytes();
                call(&mut rep, &w, Entry::EventJson, &t, big_buf(Entry::EventJson, &t));
            }
        }
        rep.count("sweep:u-escapes");
    }

    // g3. a backslash followed by a multi-byte character (or a 4-byte sequence above U+10FFFF) whose code point has the
    //     low byte of an escape letter - an escape decoder that looks at one byte of the code point takes it for the
    //     escape - in a tag string, in content, in a filter value and bare
    if mine(&mut caseno) {
        let (_, e2) = crate::c01::base_events();
        let lows: [u32; 10] = [0x22, 0x2f, 0x5c, 0x62, 0x66, 0x6e, 0x72, 0x74, 0x75, 0x30];
        let highs: [u32; 9] = [0x100, 0x700, 0x800, 0xff00, 0x1_0000, 0x1_f600, 0x10_ff00, 0x11_0000, 0x1f_ff00];
        for hi in highs {
            for lo in lows {
                let cp = hi | lo;
                // UTF-8-shaped bytes for the value, also beyond the last scalar value
                let bytes: Vec<u8> = if cp < 0x800 {
                    vec![0xC0 | (cp >> 6) as u8, 0x80 | (cp & 0x3F) as u8]
                } else if cp < 0x1_0000 {
                    vec![0xE0 | (cp >> 12) as u8, 0x80 | ((cp >> 6) & 0x3F) as u8, 0x80 | (cp & 0x3F) as u8]
                } else {
                    vec![0xF0 | (cp >> 18) as u8, 0x80 | ((cp >> 12) & 0x3F) as u8, 0x80 | ((cp >> 6) & 0x3F) as u8, 0x80 | (cp & 0x3F) as u8]
                };
                for (pre, post) in [(&[0x5cu8][..], &b""[..]), (&[b'a', 0x5c][..], &b"b"[..]), (&[0x5c, 0x5c, 0x5c][..], &b"0041"[..])] {
                    let mut sbytes = vec![b'"'];
                    sbytes.extend_from_slice(pre);
                    sbytes.extend_from_slice(&bytes);
                    sbytes.extend_from_slice(post);
                    sbytes.push(b'"');
                    call(&mut rep, &w, Entry::Unescape, &sbytes, 64);
                    let t = [b"[[\"t\",".as_slice(), &sbytes, b"],[", &sbytes, b"]]"].concat();
                    w.set_case(replay_of(Entry::TagsJson, &t, 4096));
                    call(&mut rep, &w, Entry::TagsJson, &t, 4096);
                    let t = [b"{\"#e\":[".as_slice(), &sbytes, b"]}"].concat();
                    call(&mut rep, &w, Entry::FilterJson, &t, 4096);
                    let base = render_event(&e2, &EvRender::plain(), &mut rng).0;
                    if let Some(p) = base.windows(11).position(|x| x == b"\"content\":\"") {
                        let mut t = base[..p + 10].to_vec();
                        t.extend_from_slice(&sbytes);
                        t.extend_from_slice(b",\"x\":\"");
                        t.extend_from_slice(&base[p + 11..]);
                        call(&mut rep, &w, Entry::EventJson, &t, big_buf(Entry::EventJson, &t));
                    }
                    if let Some(p) = base.windows(9).position(|x| x == b"\"tags\":[]") {
                        let mut t = base[..p + 8].to_vec();
                        t.extend_from_slice(b"[\"t\",");
                        t.extend_from_slice(&sbytes);
                        t.extend_from_slice(b"]");
                        t.extend_from_slice(&base[p + 8..]);
                        call(&mut rep, &w, Entry::EventJson, &t, big_buf(Entry::EventJson, &t));
                    }
                }
            }
        }
        rep.count("sweep:escape-letter-low-bytes");
    }

    // h. addresses
    for k in 0..(if thorough { 20000 } else { 2000 }) {
        if !mine(&mut caseno) {
            continue;
        }
        let parts = [
            rng.pick(&["0", "30023", "65535", "65536", "-1", "+5", "", "1e3", "99999999999999999999", "\u{e9}", "3 "]).to_string(),
            match rng.below(5) {
                0 => hex(&rng.arr32()),
                1 => hex(&rng.arr32()).to_uppercase(),
                2 => hex(&rng.bytes(31)),
                3 => "zz".repeat(32),
                _ => String::new(),
            },
            rand_string(&mut rng, 20),
        ];
        let mut t = match k % 4 {
            0 => parts.join(":").into_bytes(),
            1 => parts[..2].join(":").into_bytes(),
            2 => parts[0].clone().into_bytes(),
            _ => {
                let mut x = parts.join(":").into_bytes();
                if !x.is_empty() {
                    let i = rng.usize_below(x.len());
                    x[i] = 0x80 + rng.below(0x80) as u8;
                }
                x
            }
        };
        if k % 17 == 0 {
            let n = rng.usize_below(100);
            t = rng.bytes(n);
        }
        call(&mut rep, &w, Entry::Addr, &t, 0);
        rep.count("sweep:addresses");
    }

    // i. deep nesting: in a child process, so that a stack overflow is observed as a signal
    if !under_miri() && shard == 0 {
        let depths: Vec<usize> = if thorough { vec![1, 10, 100, 127, 128, 129, 1000, 10_000, 100_000, 1_000_000] } else { vec![10, 128, 129, 1000, 100_000] };
        for depth in depths {
            for shape in ["event-unknown-array", "event-unknown-object", "filter-unknown-array", "filter-unknown-object", "filter-tag-array", "tags-array", "event-tags-array"] {
                rep.count("sweep:deep-nesting(child process)");
                let exe = std::env::current_exe().unwrap();
                let out = std::process::Command::new(exe)
                    .args(["c03-child", "--shape", shape, "--depth", &depth.to_string()])
                    .output();
                let mut hh = vec![];
                hh.extend_from_slice(shape.as_bytes());
                hh.extend_from_slice(&depth.to_le_bytes());
                rep.eval(fnv(&hh), true);
                match out {
                    Ok(o) => {
                        use std::os::unix::process::ExitStatusExt;
                        let so = String::from_utf8_lossy(&o.stdout).to_string();
                        if let Some(sig) = o.status.signal() {
                            rep.finding(
                                &format!("abort-or-signal:{}", shape),
                                &format!("child died with signal {sig} at nesting depth {depth}: {}", String::from_utf8_lossy(&o.stderr).lines().last().unwrap_or("")),
                                json!({"kind":"nesting","shape":shape,"depth":depth}),
                            );
                        } else if so.starts_with("PANIC") {
                            rep.finding(&format!("panic:nesting:{}", shape), &format!("depth {depth}: {so}"), json!({"kind":"nesting","shape":shape,"depth":depth}));
                        } else if !(so.starts_with("OK") || so.starts_with("ERR")) {
                            rep.inconclusive.push(format!("nesting child {shape}/{depth}: unexpected output {so:?} status {:?}", o.status));
                        }
                    }
                    Err(e) => rep.inconclusive.push(format!("could not spawn child: {e}")),
                }
            }
        }
    }
    rep
}

pub fn nested_text(shape: &str, depth: usize) -> (Entry, Vec<u8>) {
    let (_, e2) = crate::c01::base_events();
    let mut rng = Rng::new(1);
    let arr = nested_value(depth, false);
    let obj = nested_value(depth, true);
    match shape {
        "event-unknown-array" | "event-unknown-object" => {
            let mut r = EvRender::plain();
            r.unknown = vec![Unknown { pos: 3, key_text: b"\"x\"".to_vec(), val_text: if shape.ends_with("array") { arr } else { obj } }];
            (Entry::EventJson, render_event(&e2, &r, &mut rng).0)
        }
        "filter-unknown-array" => (Entry::FilterJson, [b"{\"x\":".as_slice(), &arr, b"}"].concat()),
        "filter-unknown-object" => (Entry::FilterJson, [b"{\"x\":".as_slice(), &obj, b"}"].concat()),
        "filter-tag-array" => (Entry::FilterJson, [b"{\"#e\":".as_slice(), &arr, b"}"].concat()),
        "tags-array" => (Entry::TagsJson, arr),
        _ => {
            let t = render_event(&e2, &EvRender::plain(), &mut rng).0;
            let s = String::from_utf8_lossy(&t).to_string();
            let s = s.replace("\"tags\":[]", &format!("\"tags\":{}", String::from_utf8_lossy(&arr)));
            (Entry::EventJson, s.into_bytes())
        }
    }
}

/// child process: one deep-nesting call; prints OK / ERR / PANIC
pub fn child(args: &Args) {
    let shape = args.get_str("shape", "tags-array");
    let depth = args.get_u64("depth", 10) as usize;
    let (entry, text) = nested_text(&shape, depth);
    let mut buf = vec![0u8; 2 * text.len() + 4096];
    let r = catch(|| match entry {
        Entry::EventJson => Event::from_json(&text, &mut buf).is_ok(),
        Entry::FilterJson => Filter::from_json(&text, &mut buf).is_ok(),
        _ => Tags::from_json(&text, &mut buf).is_ok(),
    });
    match r {
        Ok(true) => println!("OK"),
        Ok(false) => println!("ERR"),
        Err(p) => println!("PANIC {} {}", p.location, p.message),
    }
}

pub fn replay(v: &serde_json::Value, rep: &mut Report) {
    let w = Watch::start("/dev/null".into(), 3600);
    match v["kind"].as_str().unwrap_or("") {
        "call" => {
            if let Some(entry) = Entry::from_name(v["entry"].as_str().unwrap_or("")) {
                let input = unhex(v["input_hex"].as_str().unwrap_or("")).unwrap_or_default();
                let buflen = v["buflen"].as_u64().unwrap_or(0) as usize;
                call(rep, &w, entry, &input, buflen);
            }
        }
        "nesting" => {
            let shape = v["shape"].as_str().unwrap_or("tags-array");
            let depth = v["depth"].as_u64().unwrap_or(10);
            let exe = std::env::current_exe().unwrap();
            if let Ok(o) = std::process::Command::new(exe).args(["c03-child", "--shape", shape, "--depth", &depth.to_string()]).output() {
                use std::os::unix::process::ExitStatusExt;
                rep.eval(1, true);
                if let Some(sig) = o.status.signal() {
                    rep.finding(&format!("abort-or-signal:{shape}"), &format!("signal {sig} at depth {depth}"), v.clone());
                }
            }
        }
        _ => rep.notes.push("generated case: re-run the check with the recorded seed".into()),
    }
}
