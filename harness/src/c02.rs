//! C02 — Event binary <-> JSON round trip is lossless and the binary form is canonical.
use crate::jsonref::extract_event;
use crate::sem::*;
use crate::util::*;
use pocket_types::{Event, Tags};
use serde_json::json;
use std::collections::hash_map::DefaultHasher;
use std::hash::{Hash, Hasher};

fn hash_of(e: &Event) -> u64 {
    let mut h = DefaultHasher::new();
    e.hash(&mut h);
    h.finish()
}

fn replay_of(e: &SemEvent, extra: serde_json::Value) -> serde_json::Value {
    json!({"kind":"event","id":hex(&e.id),"pubkey":hex(&e.pubkey),"sig":hex(&e.sig),"k":e.kind,
           "created_at":e.created_at,"tags":e.tags,"content":e.content,"extra":extra})
}

fn sem_from_replay(v: &serde_json::Value) -> Option<SemEvent> {
    let a32 = |k: &str| -> Option<[u8; 32]> {
        let b = unhex(v[k].as_str()?)?;
        let mut a = [0u8; 32];
        if b.len() != 32 {
            return None;
        }
        a.copy_from_slice(&b);
        Some(a)
    };
    let sigb = unhex(v["sig"].as_str()?)?;
    let mut sig = [0u8; 64];
    if sigb.len() != 64 {
        return None;
    }
    sig.copy_from_slice(&sigb);
    let tags: Vec<Vec<String>> = serde_json::from_value(v["tags"].clone()).ok()?;
    Some(SemEvent {
        id: a32("id")?,
        pubkey: a32("pubkey")?,
        sig,
        kind: v["k"].as_u64()? as u16,
        created_at: v["created_at"].as_u64()?,
        tags,
        content: v["content"].as_str()?.to_string(),
    })
}

/// prior contents of the output buffer
fn prefill(rng: &mut Rng, mode: u64, n: usize, other: &[u8]) -> Vec<u8> {
    match mode % 5 {
        0 => vec![0u8; n],
        1 => vec![0xffu8; n],
        2 => vec![0xaau8; n],
        3 => rng.bytes(n),
        _ => {
            // a previous, different event left in the buffer
            let mut v = vec![0x55u8; n];
            let k = other.len().min(n);
            v[..k].copy_from_slice(&other[..k]);
            v
        }
    }
}

pub fn check_event(rep: &mut Report, rng: &mut Rng, e: &SemEvent, other_bytes: &[u8], renderings: usize) {
    rep.eval(e.hash(), !e.tags.is_empty() || !e.content.is_empty());
    let owned = match catch(|| e.to_owned()) {
        Ok(Ok(o)) => o,
        Ok(Err(_)) => {
            rep.count("from_parts_refused(not in domain)");
            return;
        }
        Err(p) => {
            rep.finding(&format!("from_parts-panic@{}", p.location), &p.message, replay_of(e, json!(null)));
            return;
        }
    };
    let e0: &Event = &owned;
    let e0_bytes = e0.as_bytes().to_vec();
    // 0a. copies are byte-identical: copy() into an exactly sized and a larger dirty buffer succeeds, into a buffer
    //     one byte short fails; to_owned() likewise; the tags' own copy as well
    {
        for extra in [0usize, 5] {
            let mut buf = vec![0xB7u8; e0_bytes.len() + extra];
            match catch(|| e0.copy(&mut buf).map(|n| buf[..n.min(buf.len())].to_vec())) {
                Ok(Ok(b)) => {
                    if b != e0_bytes {
                        rep.finding("copy-differs", &format!("Event::copy into a buffer of len+{extra}: {}", first_diff(&b, &e0_bytes)), replay_of(e, json!(null)));
                    }
                }
                Ok(Err(err)) => rep.finding("copy-refused-with-sufficient-buffer", &format!("Event::copy into a buffer of len+{extra}: {err}"), replay_of(e, json!(null))),
                Err(p) => rep.finding(&format!("copy-panic@{}", p.location), &p.message, replay_of(e, json!(null))),
            }
        }
        if !e0_bytes.is_empty() {
            let mut short = vec![0u8; e0_bytes.len() - 1];
            if let Ok(Ok(_)) = catch(|| e0.copy(&mut short)) {
                rep.finding("copy-into-short-buffer-succeeded", "Event::copy into len-1 bytes returned Ok", replay_of(e, json!(null)));
            }
        }
        if let Ok(t) = e0.tags() {
            let tb = t.as_bytes().to_vec();
            let mut buf = vec![0xB7u8; tb.len()];
            match catch(|| t.copy(&mut buf).map(|_| buf.clone())) {
                Ok(Ok(b)) => {
                    if b != tb {
                        rep.finding("copy-differs", &format!("Tags::copy: {}", first_diff(&b, &tb)), replay_of(e, json!(null)));
                    }
                }
                Ok(Err(err)) => rep.finding("copy-refused-with-sufficient-buffer", &format!("Tags::copy into an exactly sized buffer: {err}"), replay_of(e, json!(null))),
                Err(p) => rep.finding(&format!("copy-panic@{}", p.location), &p.message, replay_of(e, json!(null))),
            }
        }
        let o2 = e0.to_owned();
        if o2.as_bytes() != &e0_bytes[..] {
            rep.finding("copy-differs", "to_owned()", replay_of(e, json!(null)));
        }
        rep.count("copy_checks");
    }
    // 0. the same event built from parts into output buffers with prior contents: byte-identical too
    for mode in 1..5u64 {
        let n = e0_bytes.len() + (mode as usize % 3);
        let mut buf = prefill(rng, mode, n, other_bytes);
        let tags = match e.owned_tags() {
            Ok(t) => t,
            Err(_) => break,
        };
        let r = catch(|| {
            Event::from_parts(
                pocket_types::Id::from_bytes(e.id), pocket_types::Kind::from_u16(e.kind), pocket_types::Pubkey::from_bytes(e.pubkey),
                pocket_types::Sig::from_bytes(e.sig), &tags, pocket_types::Time::from_u64(e.created_at), e.content.as_bytes(), &mut buf,
            )
            .map(|ev| ev.as_bytes().to_vec())
        });
        rep.count("from_parts_into_dirty_buffers");
        if let Ok(Ok(b)) = r {
            if b != e0_bytes {
                let at = first_diff_at(&b, &e0_bytes);
                let region = match at {
                    Some(p) if (6..8).contains(&p) => "padding-bytes-6..8",
                    Some(p) if p < 144 => "header",
                    Some(_) => "tags-or-content",
                    None => "length",
                };
                rep.finding(
                    &format!("from_parts-not-canonical:{region}"),
                    &format!("from_parts into a buffer with prior contents (mode {mode}) differs from from_parts into a zeroed one: {}", first_diff(&b, &e0_bytes)),
                    replay_of(e, json!({"prefill":mode})),
                );
                break;
            }
        }
    }
    // 1. serialise, read back with the independent parser
    let j = match catch(|| e0.as_json()) {
        Ok(Ok(j)) => j,
        Ok(Err(err)) => {
            rep.finding("as_json-error-on-valid-utf8-event", &format!("{err}"), replay_of(e, json!(null)));
            return;
        }
        Err(p) => {
            rep.finding(&format!("as_json-panic:{}@{}", panic_class(&p.message), p.location), &p.message, replay_of(e, json!(null)));
            return;
        }
    };
    match extract_event(&j) {
        Ok(sem) => {
            if sem != *e {
                let which = if sem.content != e.content { "content" } else if sem.tags != e.tags { "tags" } else { "field" };
                rep.finding(
                    &format!("as_json-unfaithful:{which}"),
                    &format!("as_json output reads back to different values; json={}", show(&j, 300)),
                    replay_of(e, json!({"json_hex":hex(&j)})),
                );
            }
        }
        Err(err) => rep.finding(
            "as_json-not-accepted-by-independent-parser",
            &format!("{err:?}; json={}", show(&j, 300)),
            replay_of(e, json!({"json_hex":hex(&j)})),
        ),
    }
    // 2. parse own output again
    {
        let mut buf = vec![0u8; e0_bytes.len() + 64];
        match catch(|| Event::from_json(&j, &mut buf).map(|(c, ev)| (c, ev.as_bytes().to_vec()))) {
            Ok(Ok((c, b))) => {
                if b != e0_bytes {
                    rep.finding("reparse-of-as_json-differs", &first_diff(&b, &e0_bytes), replay_of(e, json!(null)));
                }
                if c != j.len() {
                    rep.finding("reparse-consumed-wrong", &format!("{c} != {}", j.len()), replay_of(e, json!(null)));
                }
            }
            Ok(Err(err)) => rep.finding(
                &format!("reparse-of-as_json-rejected:{}", crate::c01::errkind(&err)),
                &format!("{err}; json={}", show(&j, 300)),
                replay_of(e, json!(null)),
            ),
            Err(p) => rep.finding(
                &format!("reparse-panic:{}@{}", panic_class(&p.message), p.location),
                &p.message,
                replay_of(e, json!(null)),
            ),
        }
    }
    // 3. several denotations of the same event, into dirty buffers
    for k in 0..renderings {
        let mut r = EvRender::random(rng);
        if k == 0 {
            r = EvRender::plain();
        }
        if k % 2 == 1 {
            r.unknown.clear(); // half of the renderings have no unknown members
        }
        let (text, _) = render_event(e, &r, rng);
        let n = e0_bytes.len() + rng.usize_below(40);
        let mode = rng.next_u64();
        let mut buf = prefill(rng, mode, n, other_bytes);
        let res = catch(|| Event::from_json(&text, &mut buf).map(|(_, ev)| ev.as_bytes().to_vec()));
        match res {
            Ok(Ok(b)) => {
                rep.count("renderings_compared");
                rep.count(&format!("prefill_mode_{}", mode % 5));
                if b != e0_bytes {
                    let d = first_diff(&b, &e0_bytes);
                    let at = first_diff_at(&b, &e0_bytes);
                    let region = match at {
                        Some(p) if (6..8).contains(&p) => "padding-bytes-6..8",
                        Some(p) if p < 144 => "header",
                        Some(_) => "tags-or-content",
                        None => "length",
                    };
                    rep.finding(
                        &format!("binary-not-canonical:{region}"),
                        &format!("JSON path vs from_parts: {d} (buffer prefill mode {})", mode % 5),
                        replay_of(e, json!({"text_hex":hex(&text),"prefill":mode % 5})),
                    );
                } else {
                    let pe = unsafe { Event::delineate(&b).unwrap() };
                    if pe != e0 {
                        rep.finding("equal-bytes-compare-unequal", "", replay_of(e, json!(null)));
                    }
                    if hash_of(pe) != hash_of(e0) {
                        rep.finding("equal-events-hash-differently", "", replay_of(e, json!(null)));
                    }
                }
                if let Ok(pe) = unsafe { Event::delineate(&b) } {
                    if (pe == e0) != (b == e0_bytes) {
                        rep.finding("eq-disagrees-with-bytes", "", replay_of(e, json!(null)));
                    }
                }
            }
            Ok(Err(_)) => rep.count("rendering_rejected(C01 territory)"),
            Err(_) => rep.count("rendering_panicked(C01/C03 territory)"),
        }
    }
    // 4. tags alone
    {
        let mut text = vec![];
        let esc = *rng.pick(&[Esc::Minimal, Esc::Random, Esc::Short, Esc::AllUUpper]);
        let ws = if rng.chance(1, 2) { Ws::Random } else { Ws::None };
        let mut gaps = Gaps::new(&ws);
        render_tags(&e.tags, esc, &mut gaps, rng, &mut text);
        let want = e0.tags().map(|t| t.as_bytes().to_vec()).unwrap_or_default();
        let mode = rng.next_u64();
        let mut buf = prefill(rng, mode, want.len() + 16, other_bytes);
        match catch(|| Tags::from_json(&text, &mut buf).map(|(c, t)| (c, t.as_bytes().to_vec()))) {
            Ok(Ok((c, b))) => {
                rep.count("tags_renderings_compared");
                if b != want {
                    rep.finding("tags-binary-not-canonical", &first_diff(&b, &want), replay_of(e, json!({"tags_text_hex":hex(&text)})));
                }
                if c != text.len() {
                    rep.finding("tags-consumed-wrong", &format!("{c} != {}", text.len()), replay_of(e, json!({"tags_text_hex":hex(&text)})));
                }
            }
            Ok(Err(_)) => rep.count("tags_rendering_rejected"),
            Err(_) => rep.count("tags_rendering_panicked"),
        }
    }
}

fn first_diff_at(a: &[u8], b: &[u8]) -> Option<usize> {
    a.iter().zip(b.iter()).position(|(x, y)| x != y)
}

fn first_diff(a: &[u8], b: &[u8]) -> String {
    if a.len() != b.len() {
        return format!("lengths differ: {} vs {}", a.len(), b.len());
    }
    match first_diff_at(a, b) {
        Some(p) => format!("first difference at byte {p}: {:#04x} vs {:#04x}", a[p], b[p]),
        None => "identical".into(),
    }
}

pub fn run(args: &Args) -> Report {
    let mut rep = Report::new("C02", &args.leg(), &args.tier(), args.seed());
    let mut rng = Rng::new(args.seed() ^ 0xC02);
    let sample = args.get("sample").map(|_| args.get_u64("sample", 0));
    let n = sample.unwrap_or(if args.thorough() { 100_000 } else { 2_000 });
    let renderings = if under_miri() { 2 } else if args.thorough() { 8 } else { 6 };
    let mut other = rand_event(&mut rng).to_owned().map(|o| o.as_bytes().to_vec()).unwrap_or_default();
    // deterministic shapes first
    let (e1, e2) = crate::c01::base_events();
    let mut shapes = vec![e1.clone(), e2.clone()];
    for ch in (0u32..128).filter_map(char::from_u32) {
        let mut e = e2.clone();
        e.content = format!("{ch}");
        e.tags = vec![vec![format!("{ch}{ch}")]];
        shapes.push(e);
    }
    for tags in [
        vec![],
        vec![vec![]],
        vec![vec![], vec![]],
        vec![vec![String::new()]],
        vec![vec![String::new(), String::new()]],
        (0..40).map(|i| vec![format!("{i}")]).collect::<Vec<_>>(),
        vec![(0..40).map(|i| format!("s{i}")).collect::<Vec<_>>()],
    ] {
        let mut e = e1.clone();
        e.tags = tags;
        shapes.push(e);
    }
    for (kind, t) in [(0u16, 0u64), (65535, u64::MAX), (256, 1 << 32), (255, (1 << 32) - 1)] {
        let mut e = e2.clone();
        e.kind = kind;
        e.created_at = t;
        e.id = [0xff; 32];
        e.pubkey = [0; 32];
        shapes.push(e);
    }
    // BMP scalars as content and tag string (quick: every 16th and the encoding boundaries; thorough: all)
    if sample.is_none() {
        let stride = if args.thorough() { 1 } else { 16 };
        for c in (0u32..=0xFFFF).filter(|c| c % stride == 0 || [0x7f, 0x80, 0x7ff, 0x800, 0xd7ff, 0xe000, 0xfffd, 0xffff].contains(c)) {
            if let Some(ch) = char::from_u32(c) {
                let mut e = e2.clone();
                e.content = format!("{ch}");
                e.tags = vec![vec![format!("{ch}")]];
                shapes.push(e);
            }
        }
    }
    // sizes around the 16-bit boundaries: the content length is the one 32-bit length field of the format, the tag
    // section and every tag string are 16-bit ones
    if sample.is_none() {
        for (n, fill) in [(65_534usize, "a"), (65_535, "a"), (65_536, "a"), (65_537, "b"), (70_000, "c"), (131_072, "d"), (200_000, "e"), (30_000, "\u{e9}"), (40_000, "\n")] {
            let mut e = e2.clone();
            e.content = fill.repeat(n);
            shapes.push(e);
            rep.count("large_content_shapes");
        }
        for n in [30_000usize, 65_000, 65_520] {
            let mut e = e1.clone();
            e.tags = vec![vec!["t".into(), "v".repeat(n)]];
            shapes.push(e);
            rep.count("large_tag_shapes");
        }
    }
    if sample.is_some() {
        shapes.truncate(3);
    }
    for e in shapes.iter() {
        check_event(&mut rep, &mut rng, e, &other, renderings);
    }
    rep.sample(json!({"kind":"fixed-shape","content":e1.content,"tags":e1.tags}));
    for k in 0..n {
        let e = rand_event(&mut rng);
        check_event(&mut rep, &mut rng, &e, &other, renderings);
        if k < 2 {
            rep.sample(json!({"kind":"random","content":show(e.content.as_bytes(), 80),"ntags":e.tags.len(),"kind_":e.kind,"created_at":e.created_at}));
        }
        if k % 7 == 0 {
            if let Ok(o) = e.to_owned() {
                other = o.as_bytes().to_vec();
            }
        }
    }
    rep
}

pub fn replay(v: &serde_json::Value, rep: &mut Report) {
    if let Some(e) = sem_from_replay(v) {
        let mut rng = Rng::new(7);
        let other = vec![0x77u8; 400];
        check_event(rep, &mut rng, &e, &other, 12);
    }
}
