#!/bin/bash
# build debug+release quietly; print errors only
cd /verif/harness
cargo build 2>&1 | grep -E "^error" -A14 | head -60
cargo build --release 2>&1 | grep -E "^error" -A14 | head -20
