"""Per-property configuration of the check driver: which legs (build profile + pvmon arguments)
run at which tier, and the static parts of the evidence (level, rule, assumptions)."""


def leg(name, profile, args, timeout=900, mandatory=True, **kw):
    d = {"name": name, "profile": profile, "args": args, "timeout": timeout, "mandatory": mandatory}
    d.update(kw)
    return d


def both(cmd, extra=None, timeout=900):
    extra = extra or []
    return [leg("debug", "debug", [cmd] + extra, timeout), leg("release", "release", [cmd] + extra, timeout)]


PROPS = {}
NOT_APPLICABLE_REASON = {}
HOOK_COMMITS = ["b850110"]

PROPS["C20"] = {
    "level": "exploration",
    "technique": "runtime monitoring: algebraic-law and round-trip oracles over enumerated + seeded register states, panic capture, debug+release",
    "level_text": ("Executes the real Hll8 code on every single-register and all-equal register state (enumerated) plus "
                   "seeded random states and element multisets, with oracles for the merge/add laws, hex round trip, "
                   "panic-freedom/finiteness of the estimate and the 40% accuracy envelope; in builds with and without "
                   "overflow checks. Held on the executions observed, not a proof over 256^256 states."),
    "level_note": "trusts the harness PRNG for 'uniformly random'; laws compared through to_hex_string; sampled, except the two enumerated families",
    "legs": lambda tier: both("c20", timeout=1800 if tier == "thorough" else 300),
    "rule": ("register states: all 65,536 single-register states and all 256 all-equal states (enumerated, "
             "exhaustive for those two families), seeded random states in four distributions, each imported from "
             "hex, re-exported, and estimated under catch_unwind; law instances: random multisets A,B,C (with "
             "overlap and forced zero runs) at each offset 0..23 checked for commutativity, associativity, "
             "idempotence, union==merge, add idempotent/order-independent; accuracy: n random 32-byte elements vs "
             "estimate, |err|/n<0.40. distinct = distinct 64-bit hash of the register state / element lists; "
             "non-trivial = a state with at least one non-zero register or a law instance with at least one element. "
             "Both profiles (overflow checks on/off) run the same cases; distinct counts the union."),
    "exhaustive_note": "exhaustive only for the single-register (256x256) and all-equal (256) state families",
    "assumptions": ["usize::MAX returned by estimate_count is read as 'not finite' (it only arises from +inf)",
                    "uniformly random elements come from a splitmix64 stream"],
}
