"""Per-property configuration of the check driver: which legs (build profile + pvmon arguments)
run at which tier, and the static parts of the evidence (level, rule, assumptions)."""


def leg(name, profile, args, timeout=900, mandatory=True, **kw):
    d = {"name": name, "profile": profile, "args": args, "timeout": timeout, "mandatory": mandatory}
    d.update(kw)
    return d


def both(cmd, extra=None, timeout=900):
    extra = extra or []
    return [leg("debug", "debug", [cmd] + extra, timeout), leg("release", "release", [cmd] + extra, timeout)]


def shards(cmd, n, timeout, profile="release"):
    """n further processes of the same workload at other seeds (thorough tier): the seeded part of every
    generator differs per shard, the enumerated sweeps repeat."""
    return [leg(f"{profile}-s{i+1}", profile, [cmd, "--seed-add", str(i + 1)], timeout=timeout, mandatory=False) for i in range(n)]


PROPS = {}
NOT_APPLICABLE_REASON = {}
HOOK_COMMITS = ["b850110", "d36f913"]

PROPS["C20"] = {
    "level": "exploration",
    "technique": "runtime monitoring: algebraic-law and round-trip oracles over enumerated + seeded register states, panic capture, debug+release",
    "level_text": ("Executes the real Hll8 code on every single-register and all-equal register state (enumerated) plus "
                   "seeded random states and element multisets, with oracles for the merge/add laws, hex round trip, "
                   "panic-freedom/finiteness of the estimate, clear(), and the 40% accuracy envelope; in builds with and without "
                   "overflow checks. The envelope is a probabilistic statement and is decided as a rate: hundreds "
                   "(thorough: 20,000) of random element streams are checked at a ladder of ~110 cardinalities "
                   "between 100 and 9000 each, and the check fails when more than max(2, streams/1000) streams leave "
                   "the envelope (unchanged tree: about one stream in 60,000, largest error seen 45% at n=556). "
                   "Held on the executions observed, not a proof over 256^256 states."),
    "level_note": "trusts the harness PRNG for 'uniformly random'; laws compared through to_hex_string; sampled, except the two enumerated families",
    "legs": lambda tier: both("c20", timeout=1800 if tier == "thorough" else 300) + (shards("c20", 6, 1800) if tier == "thorough" else []),
    "rule": ("register states: all 65,536 single-register states and all 256 all-equal states (enumerated, "
             "exhaustive for those two families), seeded random states in four distributions, each imported from "
             "hex, re-exported, and estimated under catch_unwind; law instances: random multisets A,B,C (with "
             "overlap and forced zero runs) at each offset 0..23 checked for commutativity, associativity, "
             "idempotence, union==merge, add idempotent/order-independent; accuracy: n random 32-byte elements vs "
             "estimate, |err|/n<0.40. distinct = distinct 64-bit hash of the register state / element lists; "
             "non-trivial = a state with at least one non-zero register or a law instance with at least one element. "
             "Both profiles (overflow checks on/off) run the same cases; distinct counts the union."),
    "exhaustive_note": "exhaustive only for the single-register (256x256) and all-equal (256) state families",
    "assumptions": ["usize::MAX returned by estimate_count is read as 'not finite' (it only arises from +inf)",
                    "uniformly random elements come from a splitmix64 stream"],
}


# ------------------------------------------------------------------------------------------
# pocket-types properties

def types_legs(cmd, tier, miri_quick=0, miri_thorough=(0, 0), asan_quick=False, asan_args=None, timeout_thorough=3600):
    """debug + release always; Miri on a seeded sample; ASan with exact-size buffers."""
    t = timeout_thorough if tier == "thorough" else 600
    legs = both(cmd, timeout=t)
    asan_args = asan_args or []
    if tier == "thorough" or asan_quick:
        legs.append(leg("asan", "asan", [cmd] + asan_args, timeout=t, mandatory=False))
    if tier == "thorough":
        legs += shards(cmd, 6, t)
        nmiri, per = miri_thorough
        for i in range(nmiri):
            legs.append(leg(f"miri{i}", "miri", [cmd, "--sample", str(per), "--seed-add", str(i + 1)], timeout=t, mandatory=False))
    elif miri_quick:
        legs.append(leg("miri", "miri", [cmd, "--sample", str(miri_quick)], timeout=600, mandatory=False))
    return legs


COMMON_TYPES_NOTE = ("Trusted: serde_json 1.0 as the independent parser (its 128-level recursion limit and its "
                     "last-wins handling of duplicate keys bound the domain), the harness generators (three-way "
                     "comparison generator/serde/pocket; generator != serde is a harness error, not a violation). "
                     "Observed executions only.")

PROPS["C01"] = {
    "level": "exploration",
    "technique": "runtime monitoring: differential oracle against serde_json over enumerated member orders + generated texts; debug+release, Miri sample, ASan",
    "level_text": ("Runs Event::from_json on every one of the 5040 member orders of two base events, on whitespace at "
                   "every token gap, every ASCII code point and a stratified scalar sample in every legal escape "
                   "spelling, unknown members of every JSON value kind at every position, integer boundary spellings, "
                   "tag sections up to 65,535 bytes, and seeded random combinations and mutations, comparing acceptance, "
                   "consumed length and every accessor with serde_json. Exhaustive only in the member-order dimension."),
    "level_note": COMMON_TYPES_NOTE,
    "legs": lambda tier: types_legs("c01", tier, miri_quick=5, miri_thorough=(16, 10)),
    "rule": ("texts rendered from semantic events (member order, whitespace plan, escape spelling per character, hex "
             "case, unknown members, integer spellings) followed by random trailing bytes, plus structured/byte "
             "mutations of those texts for the 'accepted valid JSON => same values' clause. distinct = 64-bit hash of "
             "the text; non-trivial = text of at least 204 bytes (gets past the parser's first length check)."),
    "exhaustive_note": "exhaustive for the 5040 member orders x 2 base events only",
    "assumptions": ["known member names are spelled literally (escaped spellings of a key are outside the domain)",
                    "texts with duplicate top-level keys, invalid JSON, surrogate-pair escapes or nesting beyond serde's limit carry no claim"],
}

PROPS["C02"] = {
    "level": "exploration",
    "technique": "runtime monitoring: round-trip and canonicity oracle (as_json -> serde_json -> from_json; k renderings into dirty buffers vs from_parts, ==, Hash); debug+release, Miri sample, ASan",
    "level_text": ("For fixed shapes (every ASCII character, all tag shapes, field extremes) and seeded random events: "
                   "as_json must be accepted by serde_json and read back to the same values, re-parsing must give "
                   "byte-identical events, and several renderings of the same event parsed into output buffers "
                   "pre-filled with 0x00/0xFF/0xAA/random bytes/a previous event must be byte-identical to the "
                   "from_parts form, compare == and hash equal."),
    "level_note": COMMON_TYPES_NOTE,
    "legs": lambda tier: types_legs("c02", tier, miri_quick=3, miri_thorough=(16, 6)),
    "rule": ("semantic events with valid UTF-8 strings; each evaluated through as_json/serde/from_json, 6-8 random "
             "renderings (half without unknown members) into buffers with five kinds of prior contents, and the tags "
             "alone. distinct = hash of the semantic event; non-trivial = has tags or content."),
    "assumptions": ["events hold valid UTF-8 strings (the property's domain)"],
}

PROPS["C03"] = {
    "level": "exploration",
    "signal_is_violation": True,
    "technique": "runtime monitoring: panic/abort/guard-zone/consumed-length monitors over deterministic sweeps and seeded mutations of every parsing entry point; debug+release, ASan with exact-size buffers, Miri sample, child processes for stack overflow, watchdog for non-termination",
    "level_text": ("Calls every parsing entry point under catch_unwind with the output slice embedded in canary zones "
                   "(native) or exactly sized (ASan/Miri): every prefix and every single-byte corruption (16 chosen "
                   "bytes + random) of ~40 base texts, span edits, high bytes, unterminated strings, 1-200 digit "
                   "numbers, 0-60 tag members, 65,536-element lists, every output buffer length 0..needed+8, 16-bit "
                   "boundary sizes, hex strings of every length, deep nesting in child processes; on Ok results "
                   "every accessor/iterator/serialiser is exercised. Both overflow-check configurations."),
    "level_note": "a panic inside the harness's own accessor battery is attributed to pocket only via the recorded panic location; stack overflow is observed as a signal in a child process; non-termination = no progress for 25 s confirmed by an isolated re-run",
    "legs": lambda tier: types_legs("c03", tier, miri_quick=30, miri_thorough=(16, 40), asan_quick=True, asan_args=["--exact"]),
    "rule": ("(entry point, input bytes, output buffer length) triples from the sweeps named above. distinct = 64-bit "
             "hash of the triple; non-trivial = the input is long enough and the buffer large enough to get past the "
             "entry point's first length check."),
    "assumptions": ["Hll8::from_hex_string takes &str, so its inputs are the lossy UTF-8 decoding of the byte string"],
}

PROPS["C06"] = {
    "level": "exploration",
    "technique": "runtime monitoring: differential oracle (20-line NIP-01 reference predicate) over generated (filter,event) pairs; debug+release",
    "level_text": ("Compares Filter::event_matches with an independent reference predicate on a boundary grid of "
                   "(since, until, created_at) triples and on seeded pairs generated from the event so that roughly "
                   "half match, covering list sizes 0/1/many with the event's value first/last/absent, prefix and "
                   "extension values, non-first values, repeated, empty and multi-letter names; a share of pairs also "
                   "goes through the JSON parsers."),
    "level_note": "the reference predicate in harness/src/sem.rs is the specification; operands built with from_parts are taken as well-formed",
    "legs": lambda tier: both("c06", timeout=3600 if tier == "thorough" else 600) + (shards("c06", 6, 3600) if tier == "thorough" else []),
    "rule": ("pairs (filter, event) from small pools so that clauses collide; distinct = hash of both binary forms; "
             "non-trivial = the filter has at least one clause. Evidence counters give the pass/fail split per clause."),
    "assumptions": ["constraints without a name string (empty tag in a from_parts filter) are not generated"],
}

PROPS["C07"] = {
    "level": "exploration",
    "technique": "runtime monitoring: differential oracle against serde_json, order-permutation consistency monitor, round-trip oracle; debug+release, Miri sample, ASan",
    "level_text": ("All 52x51 ordered pairs of distinct tag letters and sampled larger letter sets, every subset of the "
                   "seven member kinds in every order (n<=6; sampled above), integer boundary spellings for "
                   "limit/since/until/kinds (exact, saturated or rejected - never wrapped), unknown members and "
                   "whitespace at every position, and seeded random filters are parsed and compared with serde_json; "
                   "acceptance and meaning must not depend on member order; as_json of parsed and from_parts filters "
                   "must be valid JSON denoting the same values and re-parse byte-identically."),
    "level_note": COMMON_TYPES_NOTE,
    "legs": lambda tier: types_legs("c07", tier, miri_quick=5, miri_thorough=(16, 12)),
    "rule": ("filter texts rendered from semantic filters (member order, whitespace, escapes, hex case, unknown "
             "members, integer spellings); distinct = hash of the text; non-trivial = more than '{}'."),
    "exhaustive_note": "exhaustive for ordered pairs of distinct tag letters and for member orders of subsets with <= 6 members",
    "assumptions": ["tag members are '#' + one ASCII letter; a letter occurring twice is a duplicate key and outside the domain",
                    "a from_parts filter that repeats a letter serialises to duplicate keys: no claim"],
}

PROPS["C08"] = {
    "level": "exploration",
    "technique": "runtime monitoring: independent canonicaliser (serde_json) + independent SHA-256 + libsecp256k1 signing as oracle; positive and single-field-mutation negative cases; debug+release, ASan",
    "level_text": ("Events are hashed by an independent canonicaliser and SHA-256 and signed in the harness: verify() "
                   "must accept them; sign_new() must produce the same id and verify; every single-field mutation "
                   "(each bit of the id, sampled bits of pubkey/sig, created_at/kind +-1, every tag string and the "
                   "content altered in several ways, tag structure split/merged/dropped/duplicated/reordered, foreign "
                   "key or signature) must fail. Strings cover every ASCII character alone and in runs, quotes and "
                   "backslashes next to escapes, multi-byte and astral scalars."),
    "level_note": "trusts libsecp256k1 for BIP-340 and serde_json's string escaping as the NIP-01 escaping (7 short escapes, \\u00xx lower-case, everything else verbatim); harness SHA-256 is cross-checked against bitcoin_hashes on every case",
    "legs": lambda tier: both("c08", timeout=3600 if tier == "thorough" else 600) + ([leg("asan", "asan", ["c08"], timeout=3600, mandatory=False)] + shards("c08", 6, 3600) if tier == "thorough" else []),
    "rule": ("semantic events (systematic strings for the first 320 of every 700, random otherwise), each sealed with "
             "one of four keys and mutated ~120 ways; distinct = hash of the sealed event; non-trivial = has content or tags."),
    "assumptions": ["valid UTF-8 strings only"],
}

PROPS["C19"] = {
    "level": "exploration",
    "signal_is_violation": True,
    "technique": "runtime monitoring: accessor-faithfulness oracle and refuse-or-faithful monitor over size-boundary inputs and complete output-buffer-length sweeps; debug+release, ASan, Miri sample",
    "level_text": ("Every constructor (Tags/Event/Filter from_parts, the Owned* constructors, sign_new, the three JSON "
                   "entry points) is run on part lists on both sides of every 16-bit field (tag section 65,534..131,072 "
                   "bytes as one long string or many short tags, single strings of 65,535/65,536 bytes, up to 70,000 "
                   "tags / strings per tag / ids / authors / kinds, content up to 100,000 bytes) and on random shapes, "
                   "with every output buffer length 0..needed+8 (sampled for large values): the result must be an "
                   "error or a value whose accessors reproduce the parts; oversize inputs must be refused; a short "
                   "buffer must give an error, never a panic or a partial value."),
    "level_note": "needed sizes are computed independently by the harness and compared with output_size_needed",
    "legs": lambda tier: types_legs("c19", tier, miri_quick=1, miri_thorough=(16, 2), asan_quick=True),
    "rule": ("part lists (deterministic size families + seeded random shapes); each evaluation is one part list run "
             "through all its constructors and buffer lengths. distinct = hash of (family, shape); non-trivial = not "
             "the empty tags value. Counters give the number of buffer-length cases."),
    "assumptions": ["content longer than 4 GiB (the u32 field) is not exercised"],
}


# ------------------------------------------------------------------------------------------
# pocket-db properties decided by reference-model history monitors

DB_NOTE = ("Trusted: the reference model in harness/src/model.rs (DESIGN.md Appendix A) and the LMDB/heed/mmap "
           "layers below pocket-db. Histories run sequentially in one process against a real Store in a scratch "
           "directory; reopen closes the LMDB environment for real (hook verif_close). Observed executions only.")


def db_legs(cmd, tier, asan=True, valgrind=False, parallel_thorough=0):
    t = 7200 if tier == "thorough" else 900
    legs = both(cmd, timeout=t)
    if tier == "thorough":
        if asan:
            legs.append(leg("asan", "asan", [cmd, "--tier-override", "quick"], timeout=t, mandatory=False))
        if valgrind:
            legs.append(leg("valgrind", "release", [cmd, "--small"], timeout=t, mandatory=False,
                            wrap=["valgrind", "--error-exitcode=0", "--quiet", "--track-origins=no"]))
        # more seeds in parallel processes
        for i in range(parallel_thorough):
            legs.append(leg(f"debug-s{i+1}", "debug", [cmd, "--seed-add", str(i + 1)], timeout=t, mandatory=False))
    return legs


def hist_rule(what, nontrivial):
    return ("seeded operation histories (" + what + ") executed against a real Store with the reference model in "
            "lock-step; after every step the monitors named in the level text run. distinct = 64-bit hash of the "
            "history's operation/outcome log; non-trivial = " + nontrivial + ". Counters give steps, store outcomes by "
            "(model reasons : observed result), file growth events, reopens, rebuilds, queries per index plan.")


PROPS["C04"] = {
    "level": "exploration",
    "technique": "runtime monitoring: history monitor re-reading every offset ever returned after every step + id lookups vs reference model; debug (2 KiB chunks) + release (4 MiB chunks), ASan, valgrind memcheck",
    "level_text": ("Histories of stores (every alignment residue, sizes straddling the growth chunk, multi-chunk "
                   "events), removals, deletions of other events, failed stores, reopen at every position of short "
                   "histories and rebuild; after every step every offset returned so far in the current file is read "
                   "back and compared byte-for-byte, offsets must be pairwise distinct, and every retrievable id "
                   "must return its bytes. The debug build grows the map every few events (growth count in the "
                   "evidence); the release leg stores ~60 KiB events until the 4 MiB map has grown at least twice. One "
                   "history in eight continues above a large offset: the store is closed, event.map is made sparse-large "
                   "with its end marker a few bytes below 2^31 / 2^32 / 2^33, and the history carries on after the "
                   "reopen, so that events straddle and pass those values (the same happens in the model-checked "
                   "histories of C05, C09-C12 and C16-C18)."),
    "level_note": DB_NOTE,
    "legs": lambda tier: db_legs("c04", tier, valgrind=True, parallel_thorough=6),
    "rule": hist_rule("profile append", "the history contains at least one file growth or reopen after the first store"),
    "assumptions": ["a rebuild starts a new file: offsets are tracked per file generation"],
}

PROPS["C05"] = {
    "level": "exploration",
    "technique": "runtime monitoring: model-based query oracle (exact set, order, newest-k, redacted flag, scraper rule) over generated histories x per-plan filter shapes; debug+release, ASan",
    "level_text": ("After histories with few authors/kinds/tag values and clustered timestamps (ties, values differing "
                   "in high bytes), 14-28 filters per state are generated - every index plan, alternately free-form and derived from what is stored (several present values / authors / kinds, a limit cutting the qualifying set; events dated beyond the wall clock exist) - (ids; author+kind; "
                   "author+tag; kind+tag; tag; author; scrape) x limit shapes x time-window shapes x one/several "
                   "values and letters x four screening functions x scraping allowances, and the result is compared "
                   "with the reference predicate over the model's retrievable set: no foreign, unretrievable, "
                   "screened-out or duplicate event, newest first, exact size min(limit, qualifying), nothing "
                   "omitted that is newer than something returned, redacted flag only with a redacted match, "
                   "refusal as scraping only when justified for some clock value in the call interval; the same "
                   "constraint is also issued through other plans (all ids / all authors added). The check reports itself "
                   "broken if any plan, a scraper refusal or a limit cut is never exercised."),
    "level_note": DB_NOTE + " Ids 00..00 / ff..ff are not generated (range bounds). Constraint names other than single letters are issued for the never-panics clause only.",
    "legs": lambda tier: db_legs("c05", tier, parallel_thorough=6),
    "rule": hist_rule("profile query", "at least three retrievable events when the filters are evaluated"),
    "assumptions": ["tag constraint names are single ASCII letters (what NIP-01 and the JSON parser produce)"],
}

PROPS["C09"] = {
    "level": "exploration",
    "technique": "runtime monitoring: outcome rules + reference-model equality + address invariant after every step; exhaustive classification of all 65,536 kinds; debug+release, ASan",
    "level_text": ("All 65,536 kinds are classified against the NIP-01 ranges (exhaustive). Histories over 2 authors, "
                   "kinds on every range boundary, a collision-prone pool of d values (empty, x, x\\0, x\\0\\0, 181/182/183 "
                   "bytes, shared 182-byte prefixes, 400 bytes, non-first d tags) and four timestamps so that every "
                   "arrival order occurs; every store outcome is judged (newer never 'replaced', older never "
                   "accepted, equal either), and after every step every id, holder lookup, marker and index count "
                   "is compared with the model and every address must have at most one retrievable event; lookups "
                   "at addresses never used must find nothing; author+kind and #d queries are checked at the end. Enumerated part: all 1,296 (thorough 7,776) sequences of four (five) operations out of store-a-version@1/2/3 and own-address-deletion@1/2/3 on a replaceable and a parameterised address run under the same oracles."),
    "level_note": DB_NOTE,
    "legs": lambda tier: db_legs("c09", tier, parallel_thorough=6),
    "rule": hist_rule("profile replace", "at least two distinct addresses were used"),
    "exhaustive_note": "exhaustive for the kind classification (65,536 kinds) only",
    "assumptions": ["parameterised events whose first d tag has no value are not generated"],
}

PROPS["C10"] = {
    "level": "exploration",
    "technique": "runtime monitoring: victim-view guard (before/after every kind-5 request) + reference-model equality + unjustified-'deleted' rule; debug+release, ASan",
    "level_text": ("Histories with two authors in which ~30% of the steps are kind-5 requests with 1-6 tags mixing own "
                   "ids, the other author's retrievable ids, absent ids, malformed hex, own and foreign addresses "
                   "(replaceable and parameterised) and malformed addresses in every order. Around every such "
                   "request the view of all events not authored by the requester (retrievability by id, by address, "
                   "by author query, id and address markers) is captured before and after and must be identical "
                   "whatever the request returned; later submissions by the victim must never be refused as deleted "
                   "on account of a request that named them and failed. Arrival 'at any point' includes arrival "
                   "while the victim's store is in progress: leg `conc` takes the foreign / mixed deletion-request "
                   "scenarios of C14's catalogue (request vs store of its target, both orders, e and a forms), parks "
                   "the first operation at every hit of every verif point while the other runs or blocks, and "
                   "requires that an event of the other author whose store returned an offset is retrievable and "
                   "unmarked afterwards, and that the other author's address carries no marker. Enumerated part: all 3,125 (thorough 15,625) sequences of five (six) operations out of store X / own deletion request naming X / another author's request naming X / remove_event(X) / unrelated store run under the same oracles. Directed fault: the same requests arrive while every LMDB reader slot is taken (Store::read_txn handed out until it fails)."),
    "level_note": DB_NOTE,
    "legs": lambda tier: db_legs("c10", tier, parallel_thorough=6) + [leg("conc", "release", ["c10conc"], timeout=900)],
    "rule": hist_rule("profile foreign-delete", "at least one kind-5 request was guarded"),
    "assumptions": ["ids that are not stored when a request arrives are outside the property (the code marks them deliberately)"],
}

PROPS["C11"] = {
    "level": "exploration",
    "technique": "runtime monitoring: shadow cover map in the reference model + outcome rules + monotonicity monitor on naddr_is_deleted_asof, across reopen and rebuild; debug+release, ASan",
    "level_text": ("Histories in which a quarter of the steps are accepted deletion requests for the same ids and "
                   "addresses in every timestamp order, interleaved with stores and resubmissions of covered and "
                   "newer events, reopen and rebuild. Every store of a covered event must be refused as deleted, "
                   "events newer than every accepted deletion must not be, every covered event must be unretrievable "
                   "by every path after every step, and the deletion time reported for every address ever named is "
                   "sampled after every step and must never decrease. Enumerated part: all 1,296 (thorough 7,776) sequences of four (five) operations out of store-a-version@1/2/3 and own-address-deletion@1/2/3 on a replaceable and a parameterised address run under the same oracles. Enumerated part: all 3,125 (thorough 15,625) sequences of five (six) operations out of store X / own deletion request naming X / another author's request naming X / remove_event(X) / unrelated store run under the same oracles. Leg `conc`: the own-author deletion-request scenarios of C14's catalogue (request vs store of its target, both orders; address request vs store at the address; request vs read of its target) with the first operation parked at every hit of every verif point: whenever the request was accepted, every event it covers must be unretrievable afterwards."),
    "level_note": DB_NOTE,
    "legs": lambda tier: db_legs("c11", tier, parallel_thorough=6) + [leg("conc", "release", ["c11conc"], timeout=900)],
    "rule": hist_rule("profile delete", "at least one id or address marker exists at the end"),
    "assumptions": ["addresses are written canonically (kind:author:d, empty d for non-parameterised kinds); d <= 400 bytes for marker lookups"],
}

PROPS["C12"] = {
    "level": "exploration",
    "technique": "runtime monitoring: full observable snapshot before/after every failing store, with failure injection at verif points; debug+release, ASan",
    "level_text": ("More than half of the stores fail: duplicates, covered by deletions, older than the holder, "
                   "kind-5 requests whose k-th tag is foreign after k-1 effective ones (up to 40 tags), address "
                   "markers too long for an LMDB key, and failures injected through the verif::fail hook at each "
                   "stage (after pre-removal, after append, after index, after the j-th deletion tag, between the two "
                   "de-index steps, before commit). A snapshot of every id lookup, marker, holder lookup, a battery "
                   "of queries per index plan, index entry counts and extra tables is taken before each store and "
                   "must be identical afterwards whenever the store returned an error. Enumerated part: all 1,296 (thorough 7,776) sequences of four (five) operations out of store-a-version@1/2/3 and own-address-deletion@1/2/3 on a replaceable and a parameterised address run under the same oracles. Enumerated part: all 3,125 (thorough 15,625) sequences of five (six) operations out of store X / own deletion request naming X / another author's request naming X / remove_event(X) / unrelated store run under the same oracles. Directed fault: the same requests arrive while every LMDB reader slot is taken (Store::read_txn handed out until it fails)."),
    "level_note": DB_NOTE + " event_bytes / disk usage are deliberately not part of the snapshot (failed stores leak appended bytes by design).",
    "legs": lambda tier: db_legs("c12", tier, parallel_thorough=6),
    "rule": hist_rule("profile failing-stores", "at least one failing store was snapshotted"),
    "assumptions": ["injected failures stand in for I/O and MDB_MAP_FULL errors that inputs cannot provoke"],
}

PROPS["C16"] = {
    "level": "exploration",
    "technique": "runtime monitoring: full observable snapshot before/after reopen and rebuild at every position of short histories (incl. two rebuilds), compaction and backup probes; debug+release, ASan",
    "level_text": ("Histories leaving removed, replaced, deleted, ephemeral and failed-store leftovers, id and address "
                   "markers with empty/181-183/200/400-byte/binary d values and 0-3 extra tables with binary rows; "
                   "reopen (LMDB environment really closed; also with a superset of table names) or rebuild is "
                   "inserted at every position of short histories and random positions of long ones, twice per "
                   "history incl. two rebuilds; the snapshot before must equal the snapshot after; after a rebuild "
                   "event_bytes must lie within [8+sum(len), 8+sum(len+7)] of the retrievable events and both backup "
                   "paths must exist; the history then continues under the model."),
    "level_note": DB_NOTE,
    "legs": lambda tier: db_legs("c16", tier, parallel_thorough=6),
    "rule": hist_rule("profile lifecycle", "more than two of (retrievable events, id markers, address markers) exist at the end"),
    "assumptions": ["contents of the backup and offsets across a rebuild are not demanded"],
}

PROPS["C17"] = {
    "level": "exploration",
    "technique": "runtime monitoring: derived-filter completeness/soundness monitor for every event after every step + index entry counts vs model + drain-to-empty phase; debug+release, ASan, valgrind memcheck",
    "level_text": ("Histories over events with repeated tags, the same value under different letters, values longer "
                   "than 182 bytes, shared prefixes, empty values, multi-string tags and many single-letter tags, "
                   "removed through all routes (remove_event, vanish, kind-5 by id and by address, replacement). "
                   "After every step every filter derived from each event's own fields (id; author; author+kind; "
                   "each single-letter tag value alone, with author, with kind, with a limit; a closed time window) "
                   "must return it iff it is retrievable, and the i/ci/ac/akc entry counts must equal the number of "
                   "retrievable events; a drain phase removes everything by a random mix of routes and all seven "
                   "index counts must be zero."),
    "level_note": DB_NOTE,
    "legs": lambda tier: db_legs("c17", tier, valgrind=True, parallel_thorough=6),
    "rule": hist_rule("profile index", "more than ten steps"),
    "assumptions": [],
}

PROPS["C18"] = {
    "level": "exploration",
    "technique": "runtime monitoring: reference-model equality after every remove_event / vanish (exact target set, markers, tables), resubmission rule, ephemeral-kind probes; debug+release, ASan",
    "level_text": ("Histories with three authors over all kind classes, gift wraps (1059) naming the target in the "
                   "first p tag, a later p tag, only as a non-first value, or another author, near-miss kinds 1058 / "
                   "1060, deletion markers and extra-table rows; remove_event of present, absent and already removed "
                   "ids and vanish of present and absent authors; after every step all ids, holders, markers, index "
                   "counts and tables are compared with the model (exactly the targets are gone), removed events "
                   "resubmitted must not be refused as duplicate or deleted, ephemeral kinds must store Ok, read "
                   "back by offset and never be returned by id or query. Enumerated part: all 3,125 (thorough 15,625) sequences of five (six) operations out of store X / own deletion request naming X / another author's request naming X / remove_event(X) / unrelated store run under the same oracles."),
    "level_note": DB_NOTE,
    "legs": lambda tier: db_legs("c18", tier, parallel_thorough=6),
    "rule": hist_rule("profile removal", "at least one present event was removed or vanished"),
    "assumptions": [],
}


# ------------------------------------------------------------------------------------------
# crash points, schedules, reference validity

def c13_legs(tier):
    t = 7200 if tier == "thorough" else 900
    legs = [leg("debug", "debug", ["c13"], timeout=t), leg("release", "release", ["c13"], timeout=t, mandatory=False)]
    if tier == "thorough":
        for i in range(6):
            legs.append(leg(f"debug-s{i+1}", "debug", ["c13", "--seed-add", str(i + 1)], timeout=t, mandatory=False))
    return legs


PROPS["C13"] = {
    "level": "fault_enumeration",
    "technique": "fault injection + runtime monitoring: child process SIGKILLs itself at enumerated verif-point occurrences (and is killed at random instants), parent reopens the directory and checks it against the reference model of completed / completed+interrupted calls, then continues model-checked operations",
    "level_text": ("A concrete history (stores with growth, replacements, deletions, removals, vanish) is executed by a "
                   "child process that journals BEGIN/END of every call with write(2). Census run: the ordered list of "
                   "verif point hits. Kill runs: for each selected hit (quick: first, middle and last occurrence of "
                   "every distinct point name; thorough: every hit) a fresh child kills itself with SIGKILL at that "
                   "hit, starting from an empty directory (creation) and from a populated one (open). The parent then "
                   "opens the directory: Store::new must succeed; every id, marker, holder, index count must equal "
                   "the model of the completed calls, or of the completed calls plus the interrupted one (vanish: "
                   "minus a subset of its targets); every offset returned by a completed store must read back "
                   "byte-identical; ten further model-checked operations incl. file growth and reopen must behave. "
                   "Asynchronous leg: the same child with jitter is killed by the parent after a random delay, "
                   "reaching instants inside LMDB, heed and mmap-append. Debug build (2 KiB chunks: growth every few "
                   "events) is the mandatory leg."),
    "level_note": "process kill only (page cache intact), not power loss; instants between verif points are sampled by the asynchronous leg, not enumerated; trusts the kernel's MAP_SHARED/page-cache coherence and LMDB's own crash consistency for process death",
    "legs": c13_legs,
    "rule": ("a trial = (history, start state: empty or populated directory, kill at the k-th verif point hit or after a "
             "random delay). distinct = hash of (point name, history, start, hit index) resp. of the async trial "
             "parameters; every trial in which the child really died by SIGKILL is non-trivial. coverage.extra lists "
             "trials per point name and the before/after images observed."),
    "assumptions": ["'any instant' = every verif point occurrence + sampled asynchronous instants"],
}


def c14_legs(tier):
    t = 7200 if tier == "thorough" else 900
    legs = [
        leg("release", "release", ["c14"], timeout=t),
        leg("growth-debug", "debug", ["c14", "--part", "growth"], timeout=t),
    ]
    if tier == "thorough":
        legs.append(leg("debug", "debug", ["c14"], timeout=t, mandatory=False))
        legs.append(leg("asan-stress", "asan", ["c14", "--part", "stress", "--tier-override", "quick"], timeout=t, mandatory=False))
        # ThreadSanitizer (std rebuilt with instrumentation) over the multi-core stress rounds and the pause-point catalogue
        legs.append(leg("tsan-stress", "tsan", ["c14", "--part", "stress"], timeout=t, mandatory=False))
        legs.append(leg("tsan-catalogue", "tsan", ["c14", "--part", "schedules", "--tier-override", "quick"], timeout=t, mandatory=False))
        for i in range(4):
            legs.append(leg(f"release-s{i+1}", "release", ["c14", "--part", "stress", "--seed-add", str(i + 1)], timeout=t, mandatory=False))
    return legs


PROPS["C14"] = {
    "level": "exploration",
    "technique": "runtime monitoring: schedule control at verif points (pause A at each point, run B/C, search a real-time-respecting serial order against the reference model), multi-core stress with an offline history checker (commit order = offset order, real-time windows), gdb-exhibited lock cycles for hangs, child-process growth scenarios; thorough: ThreadSanitizer and ASan builds of the same workloads",
    "level_text": ("Leg 1 (deterministic): for ~60 catalogued operation pairs/triples on one store (a query over several authors / kinds / tag values parked inside its scan, at the caller's screen callback, while two stores commit; same event 2-3x; "
                   "older/newer/equal events for one replaceable or parameterised address, with a query; store vs "
                   "find_events/get_event_by_id/has_event and the reverse; remove vs query; deletion request vs store "
                   "or read of its target, by the target's author and by another author, alone and mixed with an own target; "
                   "address deletion vs store at the address, own and foreign; vanish vs store) operation A is "
                   "paused at each of its verif points (quick: first and last occurrence of each point name; thorough: "
                   "every hit) while the others run or block; every result and the final state must be explained by "
                   "some serial order that respects real time. Leg 2: 8 threads x 10-120 rounds, shared pool with "
                   "replaceable races, deletions and the same event submitted by all threads at a barrier, random "
                   "jitter at all points; a replacement storm (one writer replacing two addresses 1500-4000 times, six "
                   "readers with online monitors: an occupied address never reads as empty, never holds two events, "
                   "never holds an event older than one whose store had already returned before the lookup began); offline: successful stores replayed in offset order through the model "
                   "(none may be forbidden at its commit position), every failed store and every read must fit some "
                   "committed state within its real-time window, final state equal. Leg 3: any run without progress "
                   "for 30 s is examined with gdb; only an exhibited wait cycle is a violation. Growth scenarios "
                   "(debug chunks, child processes): a growing writer against 12 readers taking addresses only (g1: "
                   "bounded progress) and comparing bytes through query results (g2); six writer threads with no reader, mixed "
                   "kinds including ephemeral ones, after which every returned offset and id must read back the bytes "
                   "that were stored (g3)."),
    "level_note": "legs 1-2 run in release with < 4 MiB appended so the map is never resized there; remove_event and vanish are exercised in leg 1 only (no offset to order them by); vanish overlapping a query is not required to be all-or-nothing (it is a sequence of removals by design); TSan is not usable as an oracle here (DESIGN.md §2)",
    "legs": c14_legs,
    "parallel": 4,
    "rule": ("leg 1: distinct (scenario, pause point, occurrence, others blocked/ran) tuples; leg 2: distinct stress rounds "
             "(hash of the commit order); growth: runs. All are non-trivial. Counters: schedules where B blocked behind "
             "A vs ran while A was parked, operations with one vs several candidate states, base moves observed."),
    "assumptions": ["'all interleavings' = all pause-point schedules of <= 3 catalogued operations + randomised stress",
                    "'operations complete' = bounded progress; a negative verdict needs an exhibited lock cycle"],
}

PROPS["C15"] = {
    "level": "exploration",
    "technique": "runtime monitoring: address-stability monitor (fresh reference vs recorded address of every earlier reference after each store, own thread and another thread), corroborated with /proc/self/maps; byte comparison at stable addresses; debug+release",
    "level_text": ("References are taken by offset, by id and from query results and recorded as (address, length, "
                   "offset, byte copy, growth count); after every later store (on the same thread or on another one), "
                   "across at least three growth steps per history (debug: 2 KiB steps; release: ~60 KiB events across "
                   "4 MiB steps), a fresh reference for the same offset is obtained and compared by address - the stale "
                   "reference is never read through - and on a mismatch the old range is looked up in /proc/self/maps; "
                   "at equal addresses the bytes are compared with the recorded copy. The workload mixes plain notes with "
                   "stores that replace or delete referenced events, explicit removals, and 'tail' steps in which the "
                   "referenced event is the newest thing in the map when it is replaced or removed and further events "
                   "are appended afterwards (space of a removed event must not be handed out again). Every stored event is "
                   "referenced (ephemeral kinds included; some sized to end in the last word of the backing file). In a "
                   "third of the histories a second thread submits refused requests (another author's deletion requests, "
                   "duplicates) and small events of its own concurrently with the monitored thread's stores, which linger "
                   "400 us right after taking the write lock; the second thread is held back only while the monitor reads "
                   "through references. Every offset must be readable the moment store_event has returned it."),
    "level_note": "ASan/valgrind/Miri cannot see munmap-based dangling, hence the address/maps oracle; whether mremap moves the mapping depends on the address-space layout of the run",
    "legs": lambda tier: both("c15", timeout=3600 if tier == "thorough" else 600),
    "rule": ("histories of 60 (debug) / 230 (release) stores with up to 40 tracked references; distinct = hash of "
             "(index, event size, threaded); non-trivial = at least one growth step happened after a reference was taken."),
    "assumptions": ["a reference is 'valid' iff the live mapping still has its offset at the same address and the bytes are unchanged"],
}
