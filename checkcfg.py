"""Per-property configuration of the check driver: which legs (build profile + pvmon arguments)
run at which tier, and the static parts of the evidence (level, rule, assumptions)."""


def leg(name, profile, args, timeout=900, mandatory=True, **kw):
    d = {"name": name, "profile": profile, "args": args, "timeout": timeout, "mandatory": mandatory}
    d.update(kw)
    return d


def both(cmd, extra=None, timeout=900):
    extra = extra or []
    return [leg("debug", "debug", [cmd] + extra, timeout), leg("release", "release", [cmd] + extra, timeout)]


PROPS = {}
NOT_APPLICABLE_REASON = {}
HOOK_COMMITS = ["b850110"]

PROPS["C20"] = {
    "level": "exploration",
    "technique": "runtime monitoring: algebraic-law and round-trip oracles over enumerated + seeded register states, panic capture, debug+release",
    "level_text": ("Executes the real Hll8 code on every single-register and all-equal register state (enumerated) plus "
                   "seeded random states and element multisets, with oracles for the merge/add laws, hex round trip, "
                   "panic-freedom/finiteness of the estimate and the 40% accuracy envelope; in builds with and without "
                   "overflow checks. Held on the executions observed, not a proof over 256^256 states."),
    "level_note": "trusts the harness PRNG for 'uniformly random'; laws compared through to_hex_string; sampled, except the two enumerated families",
    "legs": lambda tier: both("c20", timeout=1800 if tier == "thorough" else 300),
    "rule": ("register states: all 65,536 single-register states and all 256 all-equal states (enumerated, "
             "exhaustive for those two families), seeded random states in four distributions, each imported from "
             "hex, re-exported, and estimated under catch_unwind; law instances: random multisets A,B,C (with "
             "overlap and forced zero runs) at each offset 0..23 checked for commutativity, associativity, "
             "idempotence, union==merge, add idempotent/order-independent; accuracy: n random 32-byte elements vs "
             "estimate, |err|/n<0.40. distinct = distinct 64-bit hash of the register state / element lists; "
             "non-trivial = a state with at least one non-zero register or a law instance with at least one element. "
             "Both profiles (overflow checks on/off) run the same cases; distinct counts the union."),
    "exhaustive_note": "exhaustive only for the single-register (256x256) and all-equal (256) state families",
    "assumptions": ["usize::MAX returned by estimate_count is read as 'not finite' (it only arises from +inf)",
                    "uniformly random elements come from a splitmix64 stream"],
}


# ------------------------------------------------------------------------------------------
# pocket-types properties

def types_legs(cmd, tier, miri_quick=0, miri_thorough=(0, 0), asan_quick=False, asan_args=None, timeout_thorough=3600):
    """debug + release always; Miri on a seeded sample; ASan with exact-size buffers."""
    t = timeout_thorough if tier == "thorough" else 600
    legs = both(cmd, timeout=t)
    asan_args = asan_args or []
    if tier == "thorough" or asan_quick:
        legs.append(leg("asan", "asan", [cmd] + asan_args, timeout=t, mandatory=False))
    if tier == "thorough":
        shards, per = miri_thorough
        for i in range(shards):
            legs.append(leg(f"miri{i}", "miri", [cmd, "--sample", str(per), "--seed-add", str(i + 1)], timeout=t, mandatory=False))
    elif miri_quick:
        legs.append(leg("miri", "miri", [cmd, "--sample", str(miri_quick)], timeout=600, mandatory=False))
    return legs


COMMON_TYPES_NOTE = ("Trusted: serde_json 1.0 as the independent parser (its 128-level recursion limit and its "
                     "last-wins handling of duplicate keys bound the domain), the harness generators (three-way "
                     "comparison generator/serde/pocket; generator != serde is a harness error, not a violation). "
                     "Observed executions only.")

PROPS["C01"] = {
    "level": "exploration",
    "technique": "runtime monitoring: differential oracle against serde_json over enumerated member orders + generated texts; debug+release, Miri sample, ASan",
    "level_text": ("Runs Event::from_json on every one of the 5040 member orders of two base events, on whitespace at "
                   "every token gap, every ASCII code point and a stratified scalar sample in every legal escape "
                   "spelling, unknown members of every JSON value kind at every position, integer boundary spellings, "
                   "tag sections up to 65,535 bytes, and seeded random combinations and mutations, comparing acceptance, "
                   "consumed length and every accessor with serde_json. Exhaustive only in the member-order dimension."),
    "level_note": COMMON_TYPES_NOTE,
    "legs": lambda tier: types_legs("c01", tier, miri_quick=5, miri_thorough=(16, 10)),
    "rule": ("texts rendered from semantic events (member order, whitespace plan, escape spelling per character, hex "
             "case, unknown members, integer spellings) followed by random trailing bytes, plus structured/byte "
             "mutations of those texts for the 'accepted valid JSON => same values' clause. distinct = 64-bit hash of "
             "the text; non-trivial = text of at least 204 bytes (gets past the parser's first length check)."),
    "exhaustive_note": "exhaustive for the 5040 member orders x 2 base events only",
    "assumptions": ["known member names are spelled literally (escaped spellings of a key are outside the domain)",
                    "texts with duplicate top-level keys, invalid JSON, surrogate-pair escapes or nesting beyond serde's limit carry no claim"],
}

PROPS["C02"] = {
    "level": "exploration",
    "technique": "runtime monitoring: round-trip and canonicity oracle (as_json -> serde_json -> from_json; k renderings into dirty buffers vs from_parts, ==, Hash); debug+release, Miri sample, ASan",
    "level_text": ("For fixed shapes (every ASCII character, all tag shapes, field extremes) and seeded random events: "
                   "as_json must be accepted by serde_json and read back to the same values, re-parsing must give "
                   "byte-identical events, and several renderings of the same event parsed into output buffers "
                   "pre-filled with 0x00/0xFF/0xAA/random bytes/a previous event must be byte-identical to the "
                   "from_parts form, compare == and hash equal."),
    "level_note": COMMON_TYPES_NOTE,
    "legs": lambda tier: types_legs("c02", tier, miri_quick=3, miri_thorough=(16, 6)),
    "rule": ("semantic events with valid UTF-8 strings; each evaluated through as_json/serde/from_json, 6-8 random "
             "renderings (half without unknown members) into buffers with five kinds of prior contents, and the tags "
             "alone. distinct = hash of the semantic event; non-trivial = has tags or content."),
    "assumptions": ["events hold valid UTF-8 strings (the property's domain)"],
}

PROPS["C03"] = {
    "level": "exploration",
    "technique": "runtime monitoring: panic/abort/guard-zone/consumed-length monitors over deterministic sweeps and seeded mutations of every parsing entry point; debug+release, ASan with exact-size buffers, Miri sample, child processes for stack overflow, watchdog for non-termination",
    "level_text": ("Calls every parsing entry point under catch_unwind with the output slice embedded in canary zones "
                   "(native) or exactly sized (ASan/Miri): every prefix and every single-byte corruption (16 chosen "
                   "bytes + random) of ~40 base texts, span edits, high bytes, unterminated strings, 1-200 digit "
                   "numbers, 0-60 tag members, 65,536-element lists, every output buffer length 0..needed+8, 16-bit "
                   "boundary sizes, hex strings of every length, deep nesting in child processes; on Ok results "
                   "every accessor/iterator/serialiser is exercised. Both overflow-check configurations."),
    "level_note": "a panic inside the harness's own accessor battery is attributed to pocket only via the recorded panic location; stack overflow is observed as a signal in a child process; non-termination = no progress for 25 s confirmed by an isolated re-run",
    "legs": lambda tier: types_legs("c03", tier, miri_quick=30, miri_thorough=(16, 40), asan_quick=True, asan_args=["--exact"]),
    "rule": ("(entry point, input bytes, output buffer length) triples from the sweeps named above. distinct = 64-bit "
             "hash of the triple; non-trivial = the input is long enough and the buffer large enough to get past the "
             "entry point's first length check."),
    "assumptions": ["Hll8::from_hex_string takes &str, so its inputs are the lossy UTF-8 decoding of the byte string"],
}

PROPS["C06"] = {
    "level": "exploration",
    "technique": "runtime monitoring: differential oracle (20-line NIP-01 reference predicate) over generated (filter,event) pairs; debug+release",
    "level_text": ("Compares Filter::event_matches with an independent reference predicate on a boundary grid of "
                   "(since, until, created_at) triples and on seeded pairs generated from the event so that roughly "
                   "half match, covering list sizes 0/1/many with the event's value first/last/absent, prefix and "
                   "extension values, non-first values, repeated, empty and multi-letter names; a share of pairs also "
                   "goes through the JSON parsers."),
    "level_note": "the reference predicate in harness/src/sem.rs is the specification; operands built with from_parts are taken as well-formed",
    "legs": lambda tier: both("c06", timeout=3600 if tier == "thorough" else 600),
    "rule": ("pairs (filter, event) from small pools so that clauses collide; distinct = hash of both binary forms; "
             "non-trivial = the filter has at least one clause. Evidence counters give the pass/fail split per clause."),
    "assumptions": ["constraints without a name string (empty tag in a from_parts filter) are not generated"],
}

PROPS["C07"] = {
    "level": "exploration",
    "technique": "runtime monitoring: differential oracle against serde_json, order-permutation consistency monitor, round-trip oracle; debug+release, Miri sample, ASan",
    "level_text": ("All 52x51 ordered pairs of distinct tag letters and sampled larger letter sets, every subset of the "
                   "seven member kinds in every order (n<=6; sampled above), integer boundary spellings for "
                   "limit/since/until/kinds (exact, saturated or rejected - never wrapped), unknown members and "
                   "whitespace at every position, and seeded random filters are parsed and compared with serde_json; "
                   "acceptance and meaning must not depend on member order; as_json of parsed and from_parts filters "
                   "must be valid JSON denoting the same values and re-parse byte-identically."),
    "level_note": COMMON_TYPES_NOTE,
    "legs": lambda tier: types_legs("c07", tier, miri_quick=5, miri_thorough=(16, 12)),
    "rule": ("filter texts rendered from semantic filters (member order, whitespace, escapes, hex case, unknown "
             "members, integer spellings); distinct = hash of the text; non-trivial = more than '{}'."),
    "exhaustive_note": "exhaustive for ordered pairs of distinct tag letters and for member orders of subsets with <= 6 members",
    "assumptions": ["tag members are '#' + one ASCII letter; a letter occurring twice is a duplicate key and outside the domain",
                    "a from_parts filter that repeats a letter serialises to duplicate keys: no claim"],
}

PROPS["C08"] = {
    "level": "exploration",
    "technique": "runtime monitoring: independent canonicaliser (serde_json) + independent SHA-256 + libsecp256k1 signing as oracle; positive and single-field-mutation negative cases; debug+release, ASan",
    "level_text": ("Events are hashed by an independent canonicaliser and SHA-256 and signed in the harness: verify() "
                   "must accept them; sign_new() must produce the same id and verify; every single-field mutation "
                   "(each bit of the id, sampled bits of pubkey/sig, created_at/kind +-1, every tag string and the "
                   "content altered in several ways, tag structure split/merged/dropped/duplicated/reordered, foreign "
                   "key or signature) must fail. Strings cover every ASCII character alone and in runs, quotes and "
                   "backslashes next to escapes, multi-byte and astral scalars."),
    "level_note": "trusts libsecp256k1 for BIP-340 and serde_json's string escaping as the NIP-01 escaping (7 short escapes, \\u00xx lower-case, everything else verbatim); harness SHA-256 is cross-checked against bitcoin_hashes on every case",
    "legs": lambda tier: both("c08", timeout=3600 if tier == "thorough" else 600) + ([leg("asan", "asan", ["c08"], timeout=3600, mandatory=False)] if tier == "thorough" else []),
    "rule": ("semantic events (systematic strings for the first 320 of every 700, random otherwise), each sealed with "
             "one of four keys and mutated ~120 ways; distinct = hash of the sealed event; non-trivial = has content or tags."),
    "assumptions": ["valid UTF-8 strings only"],
}

PROPS["C19"] = {
    "level": "exploration",
    "technique": "runtime monitoring: accessor-faithfulness oracle and refuse-or-faithful monitor over size-boundary inputs and complete output-buffer-length sweeps; debug+release, ASan, Miri sample",
    "level_text": ("Every constructor (Tags/Event/Filter from_parts, the Owned* constructors, sign_new, the three JSON "
                   "entry points) is run on part lists on both sides of every 16-bit field (tag section 65,534..131,072 "
                   "bytes as one long string or many short tags, single strings of 65,535/65,536 bytes, up to 70,000 "
                   "tags / strings per tag / ids / authors / kinds, content up to 100,000 bytes) and on random shapes, "
                   "with every output buffer length 0..needed+8 (sampled for large values): the result must be an "
                   "error or a value whose accessors reproduce the parts; oversize inputs must be refused; a short "
                   "buffer must give an error, never a panic or a partial value."),
    "level_note": "needed sizes are computed independently by the harness and compared with output_size_needed",
    "legs": lambda tier: types_legs("c19", tier, miri_quick=1, miri_thorough=(16, 2), asan_quick=True),
    "rule": ("part lists (deterministic size families + seeded random shapes); each evaluation is one part list run "
             "through all its constructors and buffer lengths. distinct = hash of (family, shape); non-trivial = not "
             "the empty tags value. Counters give the number of buffer-length cases."),
    "assumptions": ["content longer than 4 GiB (the u32 field) is not exercised"],
}
